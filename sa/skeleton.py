"""E6 - communication-skeleton abstract interpreter.

The thread bodies of the subject (Server.run, PlayerThread.run, Client.run and everything they
call) are interpreted FROM THEIR ASTs by sa.fold as cooperating processes over an abstract domain:

  * seats, pairs, control tokens, ready-lines and every text that depends on roles only are
    computed exactly (finite domains, constant folding);
  * cards, calls and hands do not exist: they are opaque tokens with provenance (who produced it,
    for which board / trick / position), carried inside abstract strings;
  * the game engines are abstract stubs whose turn logic is what the C01-C05 rules establish about
    the real classes; scripts (auction length, declarer, trick winners) come from a valuation;
  * queues, barriers, events, threads, sockets and the log file are analyser objects; a blocking
    operation hands control to a scheduler with a pluggable policy (round robin, or one process
    stalled / rushed as long as possible), so several schedules of the same configuration can be
    compared; deadlock = no process can move and some process has not finished.

Nothing of the subject is imported; no socket, thread of the subject, card or byte exists.
Analyser threads are used purely as coroutines (exactly one runs at a time)."""
from __future__ import annotations

import ast
import itertools
import os
import sys
import threading
from typing import Any, Callable, Dict, List, Optional

from .fold import DV, EV, Bound, ClsRef, Folder, FoldRaise, Unsupported
from .index import AnalysisError, Repo

threading.stack_size(256 * 1024 * 1024)
sys.setrecursionlimit(100000)


class Killed(BaseException):
    pass


class Native:
    _sa_native = True


# ---------------------------------------------------------------------------------------------------------------------
# scheduler
# ---------------------------------------------------------------------------------------------------------------------
class Proc:
    def __init__(self, name: str, fn: Callable[[], Any]):
        self.name, self.fn = name, fn
        self.sem = threading.Semaphore(0)
        self.state = 'ready'          # ready | running | blocked | done | raised | error | killed
        self.cond: Optional[Callable[[], bool]] = None
        self.what = ''
        self.result = None
        self.error: Optional[BaseException] = None
        self.thread: Optional[threading.Thread] = None
        self.folder: Optional[Folder] = None
        self.cur_stmt = None
        self.cur_mod = None
        self.low_priority = False     # inside a modelled sleep: runs only when nobody else can
        self.frozen = False           # an exception is unwinding: keep the location where it was raised

    def finished(self) -> bool:
        return self.state in ('done', 'raised', 'error', 'killed')


class Sched:
    def __init__(self, policy: str = 'rr', max_switches: int = 2_000_000):
        self.procs: List[Proc] = []
        self.current: Optional[Proc] = None
        self.policy = policy
        self.main_sem = threading.Semaphore(0)
        self.killing = False
        self.deadlock: Optional[List[str]] = None
        self.switches = 0
        self.max_switches = max_switches
        self.rr = 0
        self.overrun = False
        import random as _random
        self.rng = _random.Random(int(policy[5:]) if policy.startswith('rand:') else 0)

    def spawn(self, name: str, fn: Callable[[], Any]) -> Proc:
        p = Proc(name, fn)
        self.procs.append(p)
        p.thread = threading.Thread(target=self._run, args=(p,), daemon=True)
        p.thread.start()
        return p

    def _run(self, p: Proc):
        p.sem.acquire()
        if self.killing:
            p.state = 'killed'
            self._leave(p)
            return
        p.state = 'running'
        try:
            p.result = p.fn()
            p.state = 'done'
        except FoldRaise as e:
            p.state, p.error = 'raised', e
        except Killed:
            p.state = 'killed'
        except (Unsupported, AnalysisError) as e:
            p.state, p.error = 'error', e
        except BaseException as e:  # noqa - an analyser bug must not hang the run
            p.state, p.error = 'error', e
        self._leave(p)

    # -- choosing who runs next ------------------------------------------------------------------------------------
    def _runnable(self) -> List[Proc]:
        out = []
        for q in self.procs:
            if q.state == 'ready':
                out.append(q)
            elif q.state == 'blocked' and q.cond is not None:
                try:
                    if q.cond():
                        out.append(q)
                except Exception:  # noqa
                    out.append(q)
        return out

    def _pick(self, cands: List[Proc]) -> Proc:
        hi = [q for q in cands if not q.low_priority] or cands
        pol = self.policy
        if pol.startswith('stall:'):
            name = pol[6:]
            rest = [q for q in hi if not q.name.startswith(name)]
            hi = rest or hi
        elif pol.startswith('rush:'):
            name = pol[5:]
            first = [q for q in hi if q.name.startswith(name)]
            hi = first or hi
        elif pol.startswith('rand:'):
            return hi[self.rng.randrange(len(hi))]
        elif pol == 'lifo':
            return hi[-1]
        elif pol == 'fifo':
            return hi[0]
        self.rr += 1
        return hi[self.rr % len(hi)]

    def _leave(self, p: Proc):
        """p stops running (blocked, yielding or finished): give the baton to somebody else."""
        self.switches += 1
        if self.switches > self.max_switches:
            self.overrun = True
            self._kill_all()
            return
        cands = self._runnable()
        if not cands:
            if all(q.finished() for q in self.procs):
                self.main_sem.release()
                return
            self.deadlock = [f'{q.name}: {q.state}{" on " + q.what if q.state == "blocked" else ""}' for q in self.procs
                             if not q.finished()]
            self._kill_all()
            return
        nxt = self._pick(cands)
        self.current = nxt
        nxt.sem.release()

    def _kill_all(self):
        self.killing = True
        for q in self.procs:
            if not q.finished():
                q.sem.release()
        # processes unwind on their own threads; the driver waits for them in run()
        self.main_sem.release()

    # -- called from inside processes ----------------------------------------------------------------------------------
    def block(self, cond: Callable[[], bool], what: str):
        p = self.current
        assert p is not None
        while True:
            if self.killing:
                raise Killed()
            if cond():
                return
            p.state, p.cond, p.what = 'blocked', cond, what
            self._leave(p)
            p.sem.acquire()
            if self.killing:
                raise Killed()
            p.state = 'running'

    def yield_(self):
        """Preemption point at a synchronisation step."""
        p = self.current
        if p is None or self.killing:
            if self.killing:
                raise Killed()
            return
        p.state = 'ready'
        cands = self._runnable()
        nxt = self._pick(cands)
        if nxt is p:
            p.state = 'running'
            return
        self.switches += 1
        self.current = nxt
        nxt.sem.release()
        p.sem.acquire()
        if self.killing:
            raise Killed()
        p.state = 'running'

    def sleep(self):
        """A modelled sleep.  Under the cooperative policies everybody else runs until blocked first (the sleep is "long enough"); under the
        stall / random policies it is an ordinary preemption point - a sleep guarantees nothing about what another thread has done meanwhile,
        so code that relies on one for synchronisation fails under some schedule."""
        p = self.current
        if self.policy.startswith(('stall:', 'rand:')):
            self.yield_()
            return
        p.low_priority = True
        try:
            self.yield_()
        finally:
            p.low_priority = False

    def long_sleep(self):
        """Time passes for everybody: every other process - a stalled one included - runs until blocked before the sleeper goes on (a peer is
        slow, not dead: after finitely many time-outs of a timed wait its message is there)."""
        p = self.current
        p.low_priority = True
        try:
            self.yield_()
        finally:
            p.low_priority = False

    def run(self, timeout: float = 120.0):
        if not self.procs:
            return
        first = self._pick([q for q in self.procs if q.state == 'ready'])
        self.current = first
        first.sem.release()
        if not self.main_sem.acquire(timeout=timeout):
            self.overrun = True
            self._kill_all()
        for q in self.procs:
            if q.thread is not None:
                q.thread.join(timeout=10)


# ---------------------------------------------------------------------------------------------------------------------
# abstract strings and tokens
# ---------------------------------------------------------------------------------------------------------------------
class Tok(Native):
    """An opaque piece of text with provenance."""

    def __init__(self, kind: str, **kw):
        self.kind = kind
        self.__dict__.update(kw)

    def _k(self):
        return (self.kind,) + tuple(sorted((k, repr(v)) for k, v in self.__dict__.items() if k != 'kind'))

    def __eq__(self, o):
        return isinstance(o, Tok) and self._k() == o._k()

    def __hash__(self):
        return hash(self._k())

    def __repr__(self):
        return f'<{self.kind} ' + ' '.join(f'{k}={v}' for k, v in self.__dict__.items() if k != 'kind') + '>'

    def lower(self):
        return self

    upper = capitalize = lower

    def strip(self, *a):
        return self

    rstrip = lstrip = strip

    def __add__(self, o):
        return AStr([self] + _parts(o))

    def __radd__(self, o):
        return AStr(_parts(o) + [self])


def _parts(x) -> list:
    if isinstance(x, AStr):
        return list(x.parts)
    if isinstance(x, str):
        return [x]
    if isinstance(x, Tok):
        return [x]
    raise TypeError(f'cannot concatenate {type(x).__name__} to an abstract string')


class AStr(Native):
    """A string some parts of which are opaque tokens."""

    def __init__(self, parts):
        flat: list = []
        for p in parts:
            for q in _parts(p):
                if isinstance(q, str) and flat and isinstance(flat[-1], str):
                    flat[-1] += q
                elif q != '':
                    flat.append(q)
        self.parts = flat

    def __add__(self, o):
        return AStr(self.parts + _parts(o))

    def __radd__(self, o):
        return AStr(_parts(o) + self.parts)

    def lower(self):
        return AStr([p.lower() for p in self.parts])

    def upper(self):
        return AStr([p.upper() for p in self.parts])

    def strip(self, *a):
        # surrounding blanks of a protocol line carry no meaning for any parser of the subject
        return self

    rstrip = lstrip = strip

    def __contains__(self, sub):
        for p in self.parts:
            if isinstance(p, str) and sub.lower() in p.lower():
                return True
            if isinstance(p, Tok) and p.kind == 'calltext' and p.alert and sub.lower() == 'alert':
                return True
        return False

    def toks(self) -> List[Tok]:
        return [p for p in self.parts if isinstance(p, Tok)]

    def lits(self) -> List[str]:
        return [p for p in self.parts if isinstance(p, str)]

    def __eq__(self, o):
        return isinstance(o, AStr) and self.parts == o.parts

    def __hash__(self):
        return hash(tuple(self.parts))

    def __repr__(self):
        return 'A"' + ''.join(p if isinstance(p, str) else repr(p) for p in self.parts) + '"'


def show(m) -> str:
    return m if isinstance(m, str) else repr(m)


# ---------------------------------------------------------------------------------------------------------------------
# primitives
# ---------------------------------------------------------------------------------------------------------------------
class AQueue(Native):
    _n = itertools.count()

    def __init__(self, world: 'World', *a, **kw):
        self.world = world
        self.items: list = []
        self.id = f'q{next(world.counter)}'
        self.maxsize = (a[0] if a else kw.get('maxsize', 0))
        self.putters: set = set()
        self.getters: set = set()
        self.history: list = []

    def put(self, x, *a, **kw):
        w = self.world
        if a or kw:
            w.anomaly('discipline', f'Queue.put with block/timeout arguments {a} {kw}')
        self.putters.add(w.role())
        if self.maxsize:
            w.sched.block(lambda: len(self.items) < self.maxsize, f'put on full {self.id}')
        self.items.append(x)
        self.history.append(x)
        w.put_log.append((self.label(), x, w.where()))
        w.event('put', self.id, x)
        w.sched.yield_()

    def get(self, *a, **kw):
        w = self.world
        if a or kw:
            w.anomaly('discipline', f'Queue.get with block/timeout arguments {a} {kw}')
        self.getters.add(w.role())
        w.sched.block(lambda: bool(self.items), f'get on {self.label()}')
        x = self.items.pop(0)
        w.event('get', self.id, x)
        return x

    def label(self):
        return self.world.queue_names.get(id(self), self.id)


class ABarrier(Native):
    def __init__(self, world: 'World', parties, *a, **kw):
        self.world, self.parties = world, parties
        self.waiting = 0
        self.generation = 0
        self.id = f'b{next(world.counter)}'
        if a or kw:
            world.anomaly('discipline', 'Barrier with action/timeout')

    def wait(self, *a, **kw):
        w = self.world
        if a or kw:
            w.anomaly('discipline', 'Barrier.wait with a timeout')
        gen = self.generation
        self.waiting += 1
        w.event('barrier-arrive', self.id, gen)
        if self.waiting == self.parties:
            self.waiting = 0
            self.generation += 1
            w.sched.yield_()
            return 0
        w.sched.block(lambda: self.generation != gen, f'barrier {self.id} generation {gen} ({self.waiting}/{self.parties} arrived)')
        return 1


class AEvent(Native):
    def __init__(self, world: 'World', *a):
        self.world = world
        self.flag = False
        self.id = f'e{next(world.counter)}'
        self.ops: list = []

    def set(self):
        self.flag = True
        self.ops.append(('set', self.world.role()))
        self.world.event('set', self.id, None)
        self.world.sched.yield_()

    def clear(self):
        self.flag = False
        self.ops.append(('clear', self.world.role()))
        self.world.event('clear', self.id, None)
        self.world.sched.yield_()

    def is_set(self):
        self.ops.append(('is_set', self.world.role()))
        return self.flag

    def wait(self, *a, **kw):
        if a or kw:
            self.world.anomaly('discipline', 'Event.wait with a timeout')
        self.ops.append(('wait', self.world.role()))
        self.world.sched.block(lambda: self.flag, f'event {self.id}')
        return True


class AEnd(Native):
    """One end of a connection (message level)."""

    def __init__(self, world: 'World', cid: str, side: str):
        self.world, self.cid, self.side = world, cid, side
        self.inbox: list = []
        self.peer: Optional['AEnd'] = None
        self.closed = False
        self.timeout = None           # socket timeout in force on this end (None = blocking)

    def settimeout(self, t):
        self.timeout = t

    def gettimeout(self):
        return self.timeout

    def setblocking(self, flag):
        self.timeout = None if flag else 0.0

    def ready(self) -> bool:
        return bool(self.inbox) or self.peer is None or self.peer.closed or self.closed

    def close(self):
        if not self.closed:
            self.closed = True
            self.world.event('close', self.cid, self.side)
            self.world.sched.yield_()

    def send_msg(self, m):
        w = self.world
        if self.closed:
            raise FoldRaise('OSError', 'send on a closed connection')
        w.conn_trace.setdefault(self.cid, []).append((self.side, m))
        w.conn_where.setdefault(self.cid, []).append((self.side, w.where()))
        w.event('send', f'{self.cid}:{self.side}', m)
        if self.peer is not None and not self.peer.closed:
            self.peer.inbox.append(m)
        w.sched.yield_()

    def recv_msg(self):
        w = self.world
        if self.closed:
            raise FoldRaise('OSError', 'receive on a closed connection')
        if self.timeout is not None and not self.ready():
            # the protocol gives a peer unlimited time: a wait with a timeout in force can always time out before the peer's message
            w.sched.yield_()
            if not self.ready():
                w.anomaly('timed-wait', f'receive on connection {self.cid} ({self.side} side) with a {self.timeout} s timeout in force times out '
                                        f'while the peer is still thinking')
                raise FoldRaise('TimeoutError', 'timed out')
        w.sched.block(self.ready, f'receive on connection {self.cid} ({self.side} side)')
        if self.inbox:
            return self.inbox.pop(0)
        raise FoldRaise('ConnectionError', 'peer closed the connection')


class ASock(Native):
    def __init__(self, world: 'World', *a):
        self.world = world
        self.addr = None
        self.backlog: List[AEnd] = []
        self.end: Optional[AEnd] = None
        self.closed = False
        self.listening = False
        self.timeout = None

    def settimeout(self, t):
        self.timeout = t
        if self.end is not None:
            self.end.timeout = t

    def gettimeout(self):
        return self.timeout

    def setblocking(self, flag):
        self.settimeout(None if flag else 0.0)

    def bind(self, addr):
        self.addr = tuple(addr)
        self.world.listeners[self.addr] = self

    def listen(self, n=0):
        self.listening = True

    def accept(self):
        w = self.world
        w.sched.block(lambda: bool(self.backlog), 'accept')
        end = self.backlog.pop(0)
        w.event('accept', end.cid, None)
        return (end, ('peer', 0))

    def connect(self, addr):
        w = self.world
        lst = w.listeners.get(tuple(addr))
        if lst is None or not lst.listening or lst.closed:
            w.sched.block(lambda: (w.listeners.get(tuple(addr)) is not None and w.listeners[tuple(addr)].listening), 'connect (no listener yet)')
            lst = w.listeners[tuple(addr)]
        cid = f'c{next(w.counter)}'
        a, b = AEnd(w, cid, 'client'), AEnd(w, cid, 'server')
        a.peer, b.peer = b, a
        a.timeout = self.timeout
        self.end = a
        w.conn_owner[cid] = w.sched.current.name if w.sched.current else '?'
        lst.backlog.append(b)
        w.event('connect', cid, None)
        w.sched.yield_()

    def close(self):
        self.closed = True
        if self.end is not None:
            self.end.close()


def end_of(sock) -> AEnd:
    if isinstance(sock, AEnd):
        return sock
    if isinstance(sock, ASock) and sock.end is not None:
        return sock.end
    raise FoldRaise('OSError', 'socket is not connected')


class AFile(Native):
    def __init__(self, world: 'World', path, mode='r', *a, **kw):
        self.world, self.path, self.mode = world, path, mode
        self.writes: list = []
        self.closed = False
        world.files.append(self)
        if any(c in str(mode) for c in 'wax'):
            world.fs[str(path)] = self
        world.event('file-open', str(path), mode)

    def write(self, x):
        if self.closed:
            raise FoldRaise('ValueError', 'I/O operation on closed file')
        self.writes.append(x)
        self.world.event('file-write', str(self.path), x)

    def writelines(self, xs):
        for x in xs:
            self.write(x)

    def flush(self):
        if self.closed:
            raise FoldRaise('ValueError', 'I/O operation on closed file')

    def fileno(self):
        return 3

    @property
    def name(self):
        return str(self.path)

    def __enter__(self):
        return self

    def __exit__(self, *a):
        self.closed = True
        self.world.event('file-close', str(self.path), None)
        return False

    def close(self):
        self.closed = True


class APath(Native):
    """A path of the abstract file system of the world (pathlib.Path / str interface as far as the session code uses it)."""

    def __init__(self, world_or_suffix='.json', name=None):
        if isinstance(world_or_suffix, str):
            self.world, self.name = None, 'out' + world_or_suffix
        else:
            self.world, self.name = world_or_suffix, name

    def _p(self, name):
        return APath(self.world, name)

    def __repr__(self):
        return self.name

    __str__ = __fspath__ = __repr__

    def __eq__(self, o):
        return isinstance(o, (APath, str)) and str(o) == self.name

    def __hash__(self):
        return hash(self.name)

    @property
    def suffix(self):
        return '.' + self.name.rsplit('.', 1)[1] if '.' in self.name else ''

    @property
    def stem(self):
        return self.name.rsplit('.', 1)[0]

    @property
    def parent(self):
        return self._p('.')

    def with_name(self, n):
        return self._p(str(n))

    def with_suffix(self, sfx):
        return self._p(self.stem + str(sfx))

    def with_stem(self, st):
        return self._p(str(st) + self.suffix)

    def __truediv__(self, o):
        return self._p(str(o) if self.name == '.' else f'{self.name}/{o}')

    def __add__(self, o):
        return self.name + str(o)

    def __radd__(self, o):
        return str(o) + self.name

    def exists(self):
        return self.name in self.world.fs

    is_file = exists

    def open(self, mode='r', *a, **k):
        return AFile(self.world, self, mode)

    def replace(self, target):
        self.world.fs_move(self, target)
        return target

    rename = replace

    def unlink(self, missing_ok=False):
        self.world.fs_remove(self, missing_ok)


# ---------------------------------------------------------------------------------------------------------------------
# abstract game objects
# ---------------------------------------------------------------------------------------------------------------------
class AHand(Native):
    def __init__(self, board, owner, container, form='set'):
        self.board, self.owner, self.container, self.form = board, owner, container, form

    def __repr__(self):
        return f'<hand of {self.owner.name} board {self.board}{"" if self.form == "set" else " " + self.form}>'


class AHands(Native):
    def __init__(self, board, copy_of=None):
        self.board, self.copy_of = board, copy_of
        self.consumed_by = None
        # a copy taken from a deal the play engine has already (partly) consumed does not hold the configured cards any more
        self.stale = copy_of is not None and (copy_of.consumed_by is not None or getattr(copy_of, 'stale', False))

    def __getitem__(self, player):
        return AHand(self.board, player, self)

    def origin(self):
        return self if self.copy_of is None else self.copy_of.origin()

    def __repr__(self):
        return f'<deal of board {self.board}{" (copy)" if self.copy_of is not None else ""}>'


class ABoardSetting(Native):
    def __init__(self, k, dealer, vul):
        self.hands, self.dealer, self.vul = AHands(k), dealer, vul
        self.board_id, self.dda = f'ID-{k}', Tok('dda', board=k)


class AContract(Native):
    """The contract an auction of the script ends in.  Identity (board, passed out or not, declarer, vulnerability) is what the session
    oracles compare; everything else the session code asks of it - is_passed_out(), str_info(), level, trump, is_vul() ... - is answered by
    the REAL Contract class, folded on a Contract value with these fields (a fixed bid per board), so an exception or a wrong answer of
    that code shows in the session."""

    def __init__(self, world, board, spec, vul):
        self.world, self.board = world, board
        self.passed_out = spec['passed_out']
        self.declarer = None if self.passed_out else world.seat(spec['declarer'])
        self.vul = vul
        self._dv = None

    def _folder(self):
        p = self.world.sched.current
        return p.folder if p is not None and p.folder is not None else self.world.folder0

    def _real(self):
        if self._dv is None:
            f0 = self.world.folder0
            bids = [b for b in f0.members('Bid') if b.name not in ('Pass', 'X', 'XX')]
            fb = None if self.passed_out else bids[(self.board * 7 + 3) % len(bids)]
            self._dv = f0._construct(self.world.repo.cls('Contract'), [], {'final_bid': fb, 'x': False, 'xx': False, 'vul': self.vul, 'declarer': self.declarer})
        return self._dv

    def __getattr__(self, name):
        if name.startswith('_') or name in ('world', 'board', 'passed_out', 'declarer', 'vul'):
            raise AttributeError(name)
        f = self._folder()
        v = f._attr(self._real(), name)
        if isinstance(v, Bound):
            return lambda *a, **k: f._call_bound(v, list(a), dict(k))
        return v

    def __eq__(self, o):
        return isinstance(o, AContract) and (self.board, self.passed_out, self.declarer, self.vul) == (o.board, o.passed_out, o.declarer, o.vul)

    def __hash__(self):
        return hash((self.board, self.passed_out))

    def __repr__(self):
        return f'<contract board {self.board} ' + ('passed out' if self.passed_out else f'by {self.declarer.name}') + '>'


class ABidding(Native):
    """Auction stub: seats rotate clockwise from the dealer; the script fixes its length, which
    calls are passes and (optionally) one call the engine refuses."""

    def __init__(self, world: 'World', owner: str, board: int, dealer, vul):
        self.world, self.owner, self.board = world, owner, board
        self.spec = world.val['boards'][board - 1]
        self.dealer, self.vul = dealer, vul
        self.active_player = dealer
        self.bid_history: list = []
        self.n = 0
        want_d, want_v = world.seat(self.spec['dealer']), world.vul(self.spec['vul'])
        if dealer != want_d or vul != want_v:
            world.anomaly('engine-args', f'{owner}: auction of board {board} built with dealer {dealer}, vulnerability {vul}; '
                                         f'configured {want_d}, {want_v}')

    def has_done(self):
        return self.active_player is None

    def take_bid(self, call):
        w = self.world
        st = w.folder0.member('BiddingPhaseState', 'ONGOING'), w.folder0.member('BiddingPhaseState', 'FINISHED'), \
            w.folder0.member('BiddingPhaseState', 'ILLEGAL')
        if self.active_player is None:
            raise FoldRaise('Exception', 'call after the end of the auction')
        if not (isinstance(call, Tok) and call.kind == 'call'):
            w.anomaly('engine', f'{self.owner}: take_bid given {call!r}')
            raise FoldRaise('TypeError', 'not a call')
        if call.board != self.board or call.idx != self.n or call.src != self.active_player:
            w.anomaly('engine', f'{self.owner}: call #{self.n} of board {self.board} expected from {self.active_player.name}, '
                                f'got {call!r}')
        if self.spec.get('illegal_at') == self.n:
            return st[2]
        w.fault(self.spec, 'call', self.n, self.owner)
        self.bid_history.append(call)
        self.n += 1
        if self.n >= self.spec['n_calls']:
            self.active_player = None
            return st[1]
        self.active_player = w.next_seat(self.active_player)
        return st[0]

    def contract(self):
        if self.active_player is not None:
            return None
        return AContract(self.world, self.board, self.spec, self.vul)


class ATricks(int):
    """The number of tricks a side has taken on a board: a real number (0 is falsy, it can be compared and added like the engine's
    own count) that remembers whose tricks it counts."""
    _sa_native = True

    def __new__(cls, board, pair, n=0):
        o = int.__new__(cls, n)
        o.board, o.pair = board, pair
        return o

    def __eq__(self, o):
        if isinstance(o, ATricks):
            return (self.board, self.pair, int(self)) == (o.board, o.pair, int(o))
        return int(self) == o

    def __ne__(self, o):
        return not self.__eq__(o)

    def __hash__(self):
        return hash(int(self))

    def __repr__(self):
        return f'<{int(self)} tricks of {self.pair.name} board {self.board}>'


class ATricksMap(Native):
    def __init__(self, board, play=None):
        self.board, self.play = board, play

    def __getitem__(self, pair):
        return ATricks(self.board, pair, self.play.won.get(getattr(pair, 'name', None), 0) if self.play is not None else 0)


class AScore(Native):
    def __init__(self, contract, tricks, sign=1):
        self.contract, self.tricks, self.sign = contract, tricks, sign

    def __neg__(self):
        return AScore(self.contract, self.tricks, -self.sign)

    def __eq__(self, o):
        return isinstance(o, AScore) and (self.contract, self.tricks, self.sign) == (o.contract, o.tricks, o.sign)

    def __hash__(self):
        return hash(self.sign)

    def __repr__(self):
        return f'<{"-" if self.sign < 0 else ""}score({self.contract!r}, {self.tricks!r})>'


class APlay(Native):
    """Play stub: active seat = leader + position in trick (clockwise); next leader from the
    script; dummy = declarer's partner; opening leader = declarer's left-hand opponent."""

    def __init__(self, world: 'World', owner: str, board: int, contract, observer=None, hand=None, hands=None):
        self.world, self.owner, self.board = world, owner, board
        self.spec = world.val['boards'][board - 1]
        if not isinstance(contract, AContract) or contract.passed_out:
            raise FoldRaise('Exception', 'play engine built without a contract')
        want = AContract(world, board, self.spec, world.vul(self.spec['vul']))
        if contract != want:
            world.anomaly('engine-args', f'{owner}: play of board {board} built with {contract!r}, the auction gave {want!r}')
        self.contract = contract
        self.declarer = contract.declarer
        self.dummy = world.partner(self.declarer)
        self.leader = world.next_seat(self.declarer)
        self.active_player = self.leader
        self.trick_num = 1
        self.pos = 0
        self.playing_history: list = []
        self.taken_tricks = ATricksMap(board, self)
        self.won: dict = {}          # side name -> tricks taken so far
        self.dummy_hand = None
        self.observer = observer
        self.cards_seen: list = []
        if hands is not None:
            if not isinstance(hands, AHands) or hands.board != board:
                world.anomaly('engine-args', f'{owner}: play of board {board} built on {hands!r}')
            else:
                hands.consumed_by = owner
        if observer is not None:
            if not (isinstance(hand, AHand) and hand.owner == observer and hand.board == board and hand.form == 'set'):
                world.anomaly('engine-args', f'{owner}: observer for {observer.name} on board {board} built with {hand!r}')

    def has_done(self):
        return self.trick_num >= 14

    def set_dummy_hand(self, h):
        if not (isinstance(h, AHand) and h.owner == self.dummy and h.board == self.board):
            self.world.anomaly('engine-args', f'{self.owner}: dummy hand installed is {h!r}, dummy is {self.dummy.name}')
        self.dummy_hand = h

    def play_card_by_player(self, card, player):
        w = self.world
        if self.has_done():
            raise FoldRaise('ValueError', 'play after the 13th trick')
        if player != self.active_player:
            raise FoldRaise('ValueError', f'{player} is not the active player {self.active_player}')
        if not (isinstance(card, Tok) and card.kind == 'card'):
            w.anomaly('engine', f'{self.owner}: play_card_by_player given {card!r}')
            raise FoldRaise('TypeError', 'not a card')
        if (card.board, card.trick, card.pos, card.src) != (self.board, self.trick_num, self.pos, self.active_player):
            w.anomaly('engine', f'{self.owner}: card {self.pos + 1} of trick {self.trick_num} (board {self.board}) expected from '
                                f'{self.active_player.name}, got {card!r}')
        if self.observer is not None and self.active_player == self.dummy and self.observer != self.dummy and self.dummy_hand is None:
            raise FoldRaise('Exception', 'dummy hand is not disclosed')
        w.fault(self.spec, 'card', (self.trick_num, self.pos), self.owner)
        self.cards_seen.append(card)
        self.pos += 1
        if self.pos == 4:
            self.playing_history.append((self.trick_num, self.leader, tuple(self.cards_seen[-4:])))
            steps = self.spec['winners'][self.trick_num - 1]
            nl = self.leader
            for _ in range(steps):
                nl = w.next_seat(nl)
            self.leader = nl
            self.active_player = nl
            side = w.folder0._attr(nl, 'pair').name
            self.won[side] = self.won.get(side, 0) + 1
            self.trick_num += 1
            self.pos = 0
        else:
            self.active_player = w.next_seat(self.active_player)


class ABidSys(Native):
    def __init__(self, world: 'World', seat):
        self.world, self.seat = world, seat

    def bid(self, hand, env):
        w = self.world
        if not isinstance(env, ABidding):
            w.anomaly('policy-args', f'bidding policy of {self.seat.name} given {env!r}')
            raise FoldRaise('TypeError', 'policy without the auction')
        if not (isinstance(hand, AHand) and hand.owner == self.seat and hand.board == env.board and hand.form == 'binary'):
            w.anomaly('policy-args', f'bidding policy of {self.seat.name} (board {env.board}) given {hand!r}')
        if env.active_player != self.seat:
            w.anomaly('policy-args', f'bidding policy of {self.seat.name} asked while {env.active_player} is to call')
        spec = env.spec
        is_pass = env.n >= spec['n_calls'] - 3 or spec['passed_out']
        return Tok('call', board=env.board, idx=env.n, src=self.seat, is_pass=is_pass, alert=env.n in spec.get('alerts', ()))


class APlaySys(Native):
    def __init__(self, world: 'World', seat):
        self.world, self.seat = world, seat

    def play(self, hand, env):
        w = self.world
        if not isinstance(env, APlay):
            w.anomaly('policy-args', f'playing policy of {self.seat.name} given {env!r}')
            raise FoldRaise('TypeError', 'policy without the play state')
        who = env.active_player
        ok_hand = isinstance(hand, AHand) and hand.owner == who and hand.board == env.board
        if not ok_hand:
            w.anomaly('policy-args', f'playing policy of {self.seat.name}: {who.name} is to play, hand given is {hand!r}')
        w.policy_hands.append((self.seat, who, hand))
        return Tok('card', board=env.board, trick=env.trick_num, pos=env.pos, src=who)


# ---------------------------------------------------------------------------------------------------------------------
# world
# ---------------------------------------------------------------------------------------------------------------------
ADDR = ('table', 2000)


def default_boards(n=2):
    out = []
    for k in range(n):
        out.append(dict(dealer='NESW'[k % 4], vul=['NONE', 'NS', 'EW', 'BOTH'][k % 4], passed_out=False, n_calls=5 + k,
                        declarer='ESWN'[k % 4], winners=[(k + t) % 4 for t in range(13)], alerts=()))
    return out


class World:
    """One abstract session: a valuation, the processes, the recorded events."""

    def __init__(self, repo: Repo, val: dict, policy: str = 'rr'):
        self.repo, self.val = repo, val
        self.sched = Sched(policy)
        self.counter = itertools.count(1)
        self.events: list = []
        self.anomalies: list = []
        self.listeners: Dict[tuple, ASock] = {}
        self.conn_trace: Dict[str, list] = {}
        self.conn_owner: Dict[str, str] = {}
        self.conn_where: Dict[str, list] = {}
        self.put_log: list = []
        self.engines: list = []
        self.files: List[AFile] = []
        self.fs: Dict[str, AFile] = {}        # abstract file system: path -> file written there
        self.log_records: list = []
        self.queue_names: Dict[int, str] = {}
        self.policy_hands: list = []
        self.engine_count: Dict[tuple, int] = {}
        self.threads: Dict[int, Proc] = {}
        self.thread_objs: list = []
        self.folder0 = self.new_folder()
        f = self.folder0
        self.seats = f.members('Player')
        self._next = {s: f._attr(s, 'next_player') for s in self.seats}
        self._partner = {s: f._attr(s, 'partner') for s in self.seats}
        self.server_obj = None
        self.client_objs: Dict[str, DV] = {}

    # -- helpers -----------------------------------------------------------------------------------------------------
    def seat(self, name):
        return self.folder0.member('Player', name)

    def vul(self, name):
        return self.folder0.member('Vul', name)

    def next_seat(self, s):
        return self._next[s]

    def partner(self, s):
        return self._partner[s]

    def role(self) -> str:
        p = self.sched.current
        return p.name if p is not None else 'driver'

    def where(self) -> str:
        p = self.sched.current
        if p is None or p.cur_stmt is None:
            return '?'
        import os
        return f'{os.path.relpath(p.cur_mod.path, self.repo.root)}:{getattr(p.cur_stmt, "lineno", 0)}'

    def event(self, op, obj, payload):
        self.events.append((self.role(), op, obj, payload))

    def anomaly(self, kind, detail):
        self.anomalies.append((self.role(), kind, detail, self.where()))

    # -- folder with the stubs ---------------------------------------------------------------------------------------------
    def new_folder(self) -> Folder:
        f = Folder(self.repo, allow_loops=True, max_steps=int(os.environ.get('SA_PROC_STEPS', '3000000')))
        if hasattr(self, 'folder0'):
            base = self.folder0
            f.stubs, f.method_stubs, f.class_stubs, f.external_attrs = base.stubs, base.method_stubs, base.class_stubs, base.external_attrs
            f.abstract_join = base.abstract_join
            f._fresh, f._keep = base._fresh, base._keep
            return f
        w = self
        f.abstract_join = lambda parts: AStr(parts)
        f.stubs.update({
            'Queue': lambda *a, **k: AQueue(w, *a, **k),
            'Barrier': lambda *a, **k: ABarrier(w, *a, **k),
            'Event': lambda *a, **k: AEvent(w, *a, **k),
            'Thread.__init__': lambda *a, **k: None,
            'socket.socket': lambda *a, **k: ASock(w),
            'time.sleep': lambda *a, **k: w.sched.sleep(),
            'select.select': lambda r, wr=(), x=(), timeout=None: w._select(r, wr, x, timeout),
            'json.dumps': lambda d, *a, **k: w._json_dumps(d, *a, **k),
            'os.replace': lambda a, b, **k: w.fs_move(a, b), 'os.rename': lambda a, b, **k: w.fs_move(a, b), 'shutil.move': lambda a, b, **k: w.fs_move(a, b),
            'os.remove': lambda a, **k: w.fs_remove(a), 'os.unlink': lambda a, **k: w.fs_remove(a),
            'os.path.exists': lambda a: str(a) in w.fs, 'os.path.isfile': lambda a: str(a) in w.fs,
            'Path': lambda a='.': a if isinstance(a, APath) else APath(w, str(a)), 'pathlib.Path': lambda a='.': a if isinstance(a, APath) else APath(w, str(a)),
            'os.fspath': lambda a: str(a), 'os.fsync': lambda *a, **k: None,
            'open': lambda *a, **k: AFile(w, *a, **k),
            'copy.deepcopy': lambda x: (AHands(x.board, copy_of=x) if isinstance(x, AHands) else w._bad_copy(x)),
            'calc_score': lambda c, t: AScore(c, t),
            'random.choice': lambda xs: w._random(xs),
            'Hands.generate_random_hands': lambda: w._random('hands'),
        })

        def send(fo, self_val, args, kw):
            m = args[0] if args else kw.get('message')
            if isinstance(m, EV) and m.cls.enum_kind == 'StrEnum' and isinstance(m.value, str):
                m = m.value        # a StrEnum member IS its text: the bytes on the wire are those of the value
            end_of(self_val.fields.get('connection_socket')).send_msg(m)

        def recv(fo, self_val, args, kw):
            return end_of(self_val.fields.get('connection_socket')).recv_msg()
        ms = f.method_stubs
        ms[('MessageInterface', 'send_message')] = send
        ms[('MessageInterface', 'receive_message')] = recv
        ms[('Server', 'hand_to_str')] = lambda fo, sv, a, k: w._hand_to_str(a[0] if a else k.get('hand'))
        ms[('Server', 'remove_alert_word')] = lambda fo, sv, a, k: w._strip_alert(a[0] if a else k.get('message'))
        ms[('MessageInterface', 'parse_bid')] = lambda fo, sv, a, k: w._parse_bid(*a, **k)
        ms[('MessageInterface', 'parse_card')] = lambda fo, sv, a, k: w._parse_card(*a, **k)
        ms[('Client', 'parse_cards')] = lambda fo, sv, a, k: w._parse_cards(*a, **k)
        ms[('Client', 'parse_hand')] = lambda fo, sv, a, k: w._parse_hand(*a, **k)
        ms[('Client', 'create_bid_message')] = lambda fo, sv, a, k: w._create_bid_message(*a, **k)
        ms[('Client', 'card_str')] = lambda fo, sv, a, k: Tok('cardtext', card=(a[0] if a else k.get('card')))
        ms[('JsonLogWriter', 'write')] = lambda fo, sv, a, k: w._log_write(sv, a, k)
        cs = f.class_stubs
        cs['BiddingPhase'] = lambda fo, a, k: w._mk_bidding(a, k)
        cs['PlayingPhaseWithHands'] = lambda fo, a, k: w._mk_play(a, k, full=True)
        cs['ObservedPlayingPhase'] = lambda fo, a, k: w._mk_play(a, k, full=False)
        f.external_attrs['start'] = lambda obj: ('pyfunc', lambda: w.start_thread(obj))
        f.external_attrs['join'] = lambda obj: ('pyfunc', lambda *a: w.join_thread(obj))
        f.external_attrs['is_alive'] = lambda obj: ('pyfunc', lambda: w.thread_alive(obj))
        f.external_attrs['name'] = lambda obj: 'Thread-?'
        return f

    def _select(self, r, wr, x, timeout):
        """select.select on connections: with a timeout, "nothing ready yet" is a possible answer whenever the peer has not sent (a peer
        may think as long as it likes); without one the call blocks until something is readable."""
        ends = [(s_, end_of(s_)) for s_ in r]
        if timeout is None:
            self.sched.block(lambda: any(e.ready() for _, e in ends), 'select without timeout')
        else:
            # adversarial for the first two polls of a wait (the peer is slower than the timeout), then time passes for everybody
            n = min((getattr(e, 'polls', 0) for _, e in ends), default=0)
            if n < 2:
                self.sched.yield_()
            else:
                self.sched.long_sleep()
            for _, e in ends:
                e.polls = 0 if e.ready() else getattr(e, 'polls', 0) + 1
        return ([s_ for s_, e in ends if e.ready()], list(wr), [])

    def fault(self, spec: dict, point: str, at, owner: str):
        """Injected offending action / interrupt of the script: spec['fault'] = (kind, point, at); only the table manager's side is hit.
        kinds: 'refuse' - the engine refuses the action (card not held / out of turn), 'malformed' - the text does not parse,
        'interrupt' - the operator's KeyboardInterrupt arrives at this point."""
        ft = spec.get('fault')
        if not ft or owner != 'main' or self.role() != 'main':
            return
        kind, pt, when = ft
        if pt != point or when != at:
            return
        if kind == 'interrupt':
            raise FoldRaise('KeyboardInterrupt', 'operator interrupt')
        if kind == 'malformed':
            raise FoldRaise('Exception', 'Parse exception: malformed message')
        raise FoldRaise('ValueError', 'the engine refuses the action')

    def fs_move(self, a, b):
        if str(a) not in self.fs:
            raise FoldRaise('FileNotFoundError', str(a))
        self.fs[str(b)] = self.fs.pop(str(a))
        self.event('file-move', str(a), str(b))
        return b

    def fs_remove(self, a, missing_ok=False):
        if str(a) not in self.fs:
            if missing_ok:
                return
            raise FoldRaise('FileNotFoundError', str(a))
        del self.fs[str(a)]
        self.event('file-remove', str(a), None)

    def _bad_copy(self, x):
        self.anomaly('unsupported', f'deepcopy of {x!r}')
        return x

    def _random(self, xs):
        self.anomaly('random', f'a random choice is made ({xs if isinstance(xs, str) else "choice"}) although the board is configured')
        return xs[0] if isinstance(xs, list) and xs else None

    # -- stubs of the text layer (agreement of the real builders/parsers is C19's subject) -------------------------------------
    def _hand_to_str(self, hand):
        if not isinstance(hand, AHand):
            self.anomaly('text', f'hand_to_str given {hand!r}')
            raise FoldRaise('TypeError', 'not a hand')
        return Tok('handtext', board=hand.board, owner=hand.owner, source=('copy' if hand.container.copy_of is not None else 'deal'))

    def _create_bid_message(self, bid=None, player_name=None):
        if not (isinstance(bid, Tok) and bid.kind == 'call'):
            self.anomaly('text', f'create_bid_message given {bid!r}')
            raise FoldRaise('TypeError', 'not a call')
        return AStr([player_name, ' ', Tok('calltext', call=bid, alert=bid.alert)])

    def _strip_alert(self, m):
        if not isinstance(m, AStr):
            return m
        return AStr([Tok('calltext', call=p.call, alert=False) if isinstance(p, Tok) and p.kind == 'calltext' else p for p in m.parts])

    def _parse_bid(self, content=None, player_name=None):
        if not (isinstance(content, AStr) and len(content.parts) == 2 and isinstance(content.parts[0], str)
                and isinstance(content.parts[1], Tok) and content.parts[1].kind == 'calltext'):
            raise FoldRaise('Exception', f'Parse exception: {show(content)} is not a call message')
        if content.parts[0].strip().lower() != str(player_name).lower():
            raise FoldRaise('Exception', f'Parse exception: call message {content!r} does not name {player_name}')
        ct = content.parts[1]
        if self.role() == 'main':
            self.fault(self.val['boards'][ct.call.board - 1], 'parse_call', ct.call.idx, 'main')
        if ct.alert and ct.call.is_pass:
            raise FoldRaise('Exception', f'Illegal bid received: {content!r} still carries its alert suffix')
        return ct.call

    def _parse_card(self, content=None, player=None):
        if not (isinstance(content, AStr) and len(content.parts) == 2 and isinstance(content.parts[0], str)
                and isinstance(content.parts[1], Tok) and content.parts[1].kind == 'cardtext'):
            raise FoldRaise('Exception', f'Parse exception: {show(content)} is not a card message')
        name = self.folder0._attr(player, 'formal_name') if isinstance(player, EV) else str(player)
        if content.parts[0].lower() != f'{name} plays '.lower():
            raise FoldRaise('Exception', f'Parse exception: card message {content!r} does not name {name}')
        cd = content.parts[1].card
        if self.role() == 'main' and isinstance(cd, Tok) and cd.kind == 'card':
            self.fault(self.val['boards'][cd.board - 1], 'parse_card', (cd.trick, cd.pos), 'main')
        return cd

    def _parse_cards(self, content=None, player_name=None):
        if not (isinstance(content, AStr) and len(content.parts) == 2 and isinstance(content.parts[0], str)
                and isinstance(content.parts[1], Tok) and content.parts[1].kind == 'handtext'):
            raise FoldRaise('Exception', f'Parse exception: {show(content)} is not a hand message')
        if content.parts[0].lower() != f"{player_name}'s cards : ".lower():
            raise FoldRaise('Exception', f'Parse exception: hand message {content!r} does not name {player_name}')
        return content.parts[1]

    def _parse_hand(self, content=None):
        if not (isinstance(content, Tok) and content.kind == 'handtext'):
            raise FoldRaise('Exception', f'Parse exception: {show(content)} is not a hand text')
        cont = AHands(content.board)
        return (AHand(content.board, content.owner, cont, 'set'), AHand(content.board, content.owner, cont, 'binary'))

    def _log_write(self, sv, a, k):
        if a:
            self.anomaly('unsupported', 'log write with positional arguments')
        rec = dict(k)
        rec['_by'] = self.role()
        rec['_at'] = len(self.events)
        self.log_records.append(rec)
        tok = Tok('record', n=len(self.log_records))
        f = self.sched.current.folder if self.sched.current is not None and self.sched.current.folder is not None else self.folder0
        c, fn = f._find(sv.cls, '_write_content')
        if fn is not None:
            # the real streaming step (separator, line) with the serialised record as an opaque token (json.dumps is stubbed)
            f._invoke(c.module, c, fn, sv, [{'__record__': tok}], {})
            return
        fw = sv.fields.get('_writer')
        if isinstance(fw, AFile):
            fw.write(tok)

    def _json_dumps(self, d, *a, **k):
        if isinstance(d, dict) and '__record__' in d:
            return d['__record__']
        self.anomaly('unsupported', f'json.dumps of {type(d).__name__} in the session code')
        return Tok('json')

    # -- engines ------------------------------------------------------------------------------------------------------------
    def _board_for(self, kind: str) -> int:
        key = (self.role(), kind)
        self.engine_count[key] = self.engine_count.get(key, 0) + 1
        return self.engine_count[key]

    def _mk_bidding(self, a, k):
        dealer = k.get('dealer', a[0] if a else None)
        vul = k.get('vul', a[1] if len(a) > 1 else None)
        b = self._board_for('auction')
        if b > len(self.val['boards']):
            raise FoldRaise('Exception', 'more auctions than boards')
        e = ABidding(self, self.role(), b, dealer, vul)
        self.engines.append(('auction', self.role(), b, e))
        return e

    def _mk_play(self, a, k, full):
        b = self.engine_count.get((self.role(), 'auction'), 0)
        contract = k.get('contract', a[0] if a else None)
        if full:
            e = APlay(self, self.role(), b, contract, hands=k.get('hands', a[1] if len(a) > 1 else None))
        else:
            e = APlay(self, self.role(), b, contract, observer=k.get('player', a[1] if len(a) > 1 else None),
                      hand=k.get('hand', a[2] if len(a) > 2 else None))
        self.engines.append(('play', self.role(), b, e))
        return e

    # -- threads ------------------------------------------------------------------------------------------------------------
    def _proc_body(self, thunk):
        def body():
            p = self.sched.current
            f = self.new_folder()
            p.folder = f

            def on_stmt(st, env, mod, ci):
                if self.sched.killing and not p.finished():
                    raise Killed()
                if not self.sched.killing and p.state == 'running' and not p.frozen:
                    p.cur_stmt, p.cur_mod = st, mod
            f.on_stmt = on_stmt
            return thunk(f)
        return body

    def start_thread(self, obj: DV):
        n = len(self.thread_objs) + 1
        self.thread_objs.append(obj)
        p = self.sched.spawn(f'T{n}', self._proc_body(lambda f: f.call_method(obj, 'run')))
        self.threads[id(obj)] = p
        self.event('thread-start', p.name, None)
        self.sched.yield_()

    def join_thread(self, obj: DV):
        p = self.threads.get(id(obj))
        if p is None:
            raise FoldRaise('RuntimeError', 'join of a thread that was not started')
        self.sched.block(lambda: p.finished(), f'join {p.name}')
        self.event('thread-join', p.name, None)

    def thread_alive(self, obj: DV):
        p = self.threads.get(id(obj))
        return p is not None and not p.finished()

    # -- session ------------------------------------------------------------------------------------------------------------
    def add_server(self):
        boards = [ABoardSetting(i + 1, self.seat(b['dealer']), self.vul(b['vul'])) for i, b in enumerate(self.val['boards'])]
        self.board_settings = boards

        def body(f: Folder):
            srv = f._construct(self.repo.cls('Server', 'skeleton'), [], dict(ip_address=ADDR[0], port=ADDR[1], output_file_path=APath(self, 'out.json'),
                                                                             board_settings=list(boards)))
            self.server_obj = srv
            for attr, lab in (('sent_message_queues', 'to-seat'), ('received_message_queues', 'from-seat')):
                d = srv.fields.get(attr)
                if isinstance(d, dict):
                    for s, q in d.items():
                        self.queue_names[id(q)] = f'{lab}[{s.name}]'
            f._getattr_call(srv, '__enter__', [], {})
            try:
                f.steps = 0
                return f._getattr_call(srv, 'run', [], {})
            except BaseException:
                self.sched.current.frozen = True
                raise
            finally:
                try:
                    f._getattr_call(srv, '__exit__', [None, None, None], {})
                except Killed:
                    pass
        return self.sched.spawn('main', self._proc_body(body))

    def add_client(self, seat_name: str, team: str, proc_name: Optional[str] = None):
        seat = self.seat(seat_name)

        def body(f: Folder):
            c = f._construct(self.repo.cls('Client', 'skeleton'), [], dict(player=seat, team_name=team, bidding_system=ABidSys(self, seat),
                                                                           playing_system=APlaySys(self, seat), ip_address=ADDR[0], port=ADDR[1]))
            self.client_objs[proc_name or f'client-{seat_name}'] = c
            f._getattr_call(c, '__enter__', [], {})
            try:
                f.steps = 0
                return f._getattr_call(c, 'run', [], {})
            except BaseException:
                self.sched.current.frozen = True
                raise
            finally:
                try:
                    f._getattr_call(c, '__exit__', [None, None, None], {})
                except Killed:
                    pass
        return self.sched.spawn(proc_name or f'client-{seat_name}', self._proc_body(body))

    def add_script(self, name: str, lines_fn):
        """A scripted requester (analyser-side): lines_fn(sock_end) is ordinary Python using send_msg/recv_msg."""
        def body(f: Folder):
            s = ASock(self)
            s.connect(ADDR)
            try:
                return lines_fn(s.end)
            finally:
                s.close()
        return self.sched.spawn(name, self._proc_body(body))

    def run(self, timeout=120.0):
        self.sched.run(timeout)
        return self

    # -- results -------------------------------------------------------------------------------------------------------------
    def status(self) -> Dict[str, str]:
        return {p.name: p.state + (f' ({type(p.error).__name__}: {str(p.error)[:140]})' if p.error is not None else '')
                for p in self.sched.procs}

    def server_sent(self, cid: str) -> list:
        return [m for side, m in self.conn_trace.get(cid, []) if side == 'server']

    def client_sent(self, cid: str) -> list:
        return [m for side, m in self.conn_trace.get(cid, []) if side == 'client']

    def conn_of(self, proc_name: str) -> Optional[str]:
        for cid, owner in self.conn_owner.items():
            if owner == proc_name:
                return cid
        return None
