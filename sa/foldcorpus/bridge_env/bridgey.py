"""Corpus programs shaped like the analysed package: value objects, tables, text notations, small state machines."""
from __future__ import annotations

import re
from dataclasses import dataclass, field
from enum import Enum
from functools import total_ordering
from typing import Dict, List, NamedTuple, Optional, Set, Tuple


class Suit(Enum):
    C = 1
    D = 2
    H = 3
    S = 4
    NT = 5

    def __str__(self):
        return self.name

    @property
    def is_minor(self):
        return self in (Suit.C, Suit.D)


class Seat(Enum):
    N = 1
    E = 2
    S = 3
    W = 4

    @property
    def next(self):
        return Seat(self.value % 4 + 1)

    @property
    def side(self):
        return 'NS' if self.value % 2 else 'EW'


RANKS = '23456789TJQKA'


@dataclass(frozen=True)
class Card:
    rank: int
    suit: Suit

    def __post_init__(self):
        if not 2 <= self.rank <= 14:
            raise ValueError(f'bad rank {self.rank}')

    def __int__(self):
        return self.rank - 2 + (self.suit.value - 1) * 13

    def __str__(self):
        return f'{self.suit}{RANKS[self.rank - 2]}'

    def __lt__(self, other):
        return int(self) < int(other)

    @classmethod
    def parse(cls, text: str) -> 'Card':
        return cls(RANKS.index(text[1].upper()) + 2, Suit[text[0].upper()])

    @staticmethod
    def from_int(i: int) -> 'Card':
        if not 0 <= i < 52:
            raise ValueError(i)
        q, r = divmod(i, 13)
        return Card(r + 2, Suit(q + 1))


class Trick(NamedTuple):
    leader: Seat
    cards: Tuple[Card, ...]


def deal() -> Dict[Seat, Set[Card]]:
    pack = [Card.from_int(i) for i in range(52)]
    pack = pack[::2] + pack[1::2]
    return {s: set(pack[k * 13:(k + 1) * 13]) for k, s in enumerate(Seat)}


def hand_text(hand) -> str:
    out = []
    for su in (Suit.S, Suit.H, Suit.D, Suit.C):
        held = sorted((c for c in hand if c.suit is su), reverse=True)
        out.append(f'{su} ' + (' '.join(RANKS[c.rank - 2] for c in held) if held else '-'))
    return '. '.join(out) + '.'


def t_cards_roundtrip():
    return [all(Card.from_int(int(c)) == c for c in (Card.from_int(i) for i in range(52))), str(Card(14, Suit.S)), str(Card.parse('h2')), int(Card.parse('ct')),
            sorted([Card.parse(x) for x in ('SA', 'C2', 'HT', 'H9')])[0].rank, max(Card.parse('D3'), Card.parse('DA')).rank, len({Card(2, Suit.C), Card.parse('c2')}),
            Card(5, Suit.H) in [Card.parse('H5')], [str(c) for c in sorted(deal()[Seat.N])][:4], sum(len(h) for h in deal().values()), hand_text(deal()[Seat.W]),
            hand_text([Card(14, Suit.S)]), hand_text([]), Suit.C.is_minor, Suit.H.is_minor, Seat.W.next.name, Seat.E.side, [s.side for s in Seat]]


def t_card_errors():
    out = []
    for bad in (lambda: Card(1, Suit.C), lambda: Card(15, Suit.C), lambda: Card.parse('X2'), lambda: Card.parse('SZ'), lambda: Card.parse('S'), lambda: Card.from_int(52),
                lambda: Card.from_int(-1), lambda: Suit(6), lambda: Suit['N'], lambda: Card.parse('')):
        try:
            out.append(str(bad()))
        except (ValueError, KeyError, IndexError) as e:
            out.append(type(e).__name__)
    return out


class Auction:
    """A little state machine with a numeric mask, histories and a contract."""

    def __init__(self, dealer: Seat):
        self.turn: Optional[Seat] = dealer
        self.calls: List[str] = []
        self.by_seat: Dict[Seat, List[str]] = {s: [] for s in Seat}
        self.mask = [1] * 35 + [1, 0, 0]
        self.last: Optional[int] = None
        self.last_by: Optional[Seat] = None
        self.dbl = 0

    def take(self, call: str) -> str:
        if self.turn is None:
            raise RuntimeError('over')
        idx = {'P': 35, 'X': 36, 'XX': 37}.get(call)
        if idx is None:
            idx = (int(call[0]) - 1) * 5 + 'CDHSN'.index(call[1])
        if not self.mask[idx]:
            return 'ILLEGAL'
        self.calls.append(call)
        self.by_seat[self.turn].append(call)
        if idx < 35:
            self.mask[:idx + 1] = [0] * (idx + 1)
            self.last, self.last_by, self.dbl = idx, self.turn, 0
        elif idx > 35:
            self.dbl = idx - 35
        if len(self.calls) >= 4 and self.calls[-3:] == ['P'] * 3 and (self.last is not None or self.calls[-4] == 'P'):
            self.turn = None
            return 'FINISHED'
        self.turn = self.turn.next
        opp = self.last_by is not None and self.last_by.side != self.turn.side
        self.mask[36] = int(self.last is not None and self.dbl == 0 and opp)
        self.mask[37] = int(self.last is not None and self.dbl == 1 and not opp)
        return 'ONGOING'


def t_auction_machine():
    out = []
    a = Auction(Seat.N)
    for c in ['P', '1C', 'X', 'XX', 'X', '1C', 'P', '1N', 'XX', 'X', 'P', 'P', 'XX', 'P', 'P', 'P']:
        out.append((c, a.take(c), a.turn.name if a.turn else None, a.mask[35:], sum(a.mask[:35])))
    try:
        a.take('P')
    except RuntimeError as e:
        out.append(str(e))
    b = Auction(Seat.W)
    out += [[b.take('P') for _ in range(4)], b.by_seat[Seat.W], len(b.calls), a.by_seat[Seat.E], a.calls.count('P'), a.dbl, a.last, a.last_by.name]
    return out


@total_ordering
class Score:
    def __init__(self, ns: int):
        self.ns = ns

    def __eq__(self, o):
        return isinstance(o, Score) and self.ns == o.ns

    def __lt__(self, o):
        if not isinstance(o, Score):
            return NotImplemented
        return self.ns < o.ns

    def __neg__(self):
        return Score(-self.ns)

    def __add__(self, o):
        return Score(self.ns + (o.ns if isinstance(o, Score) else o))

    __radd__ = __add__

    def __repr__(self):
        return f'Score({self.ns:+d})'

    def __hash__(self):
        return hash(self.ns)


IMPS = (20, 50, 90, 130, 170, 220, 270, 320, 370, 430, 500, 600, 750, 900, 1100, 1300, 1500, 1750, 2000, 2250, 2500, 3000, 3500, 4000)


def imps(diff: int) -> int:
    n = 0
    for t in IMPS:
        if abs(diff) < t:
            break
        n += 1
    return n if diff >= 0 else -n


def t_scores():
    s = [Score(420), Score(-50), Score(0), Score(420)]
    return [sorted(s)[0].ns, max(s).ns, s[0] == s[3], s[0] is s[3], len(set(s)), repr(-s[0]), repr(sum(s, Score(0))), repr(s[1] + 10), repr(10 + s[1]), s[0] >= s[3], s[1] <= s[2], s[0] > s[1],
            [imps(d) for d in (0, 10, 19, 20, -20, -19, 45, 50, 4000, -4000, 3999, 10 ** 9, -10 ** 9)], imps(-15), imps(15), f'{s[0]!r:>12}|', '%s / %r' % (s[1], s[2]),
            sorted([(imps(d), d) for d in (100, -100, 30)], reverse=True), s[0] != Score(420), s[0] == 420]


TAG = re.compile(r'\[\s*(\w+)\s+"([^"]*)"\s*\]')


def parse_games(text: str) -> List[Dict[str, str]]:
    games, cur = [], {}
    for raw in text.splitlines():
        line = raw.strip()
        if line.startswith('%'):
            continue
        if not line:
            if cur:
                games.append(cur)
            cur = {}
            continue
        for m in TAG.finditer(line):
            cur.setdefault(m.group(1), m.group(2))
    if cur:
        games.append(cur)
    return games


def write_games(games) -> str:
    out = []
    for g in games:
        for k, v in g.items():
            line = f'[{k} "{v}"]'
            while len(line) > 30:
                out.append(line[:29])
                line = line[29:]
            out.append(line)
        out.append('')
    return '\n'.join(out) + ('\n' if out else '')


def t_text_files():
    g = [{'Board': '1', 'Dealer': 'N', 'Deal': 'N:AK.Q.J.T 9.8.7.6'}, {'Board': ' 2 ', 'Dealer': 'E'}, {'Board': '#', 'Event': '## x'}]
    txt = write_games(g[:2])
    return [txt, parse_games(txt) == g[:2], parse_games('\n\n' + txt + '\n  \n\t\n'), parse_games('% PBN 2.1\n[A "1"][B "2"]\r\n\r\n[A "3"]\n[A "4"]'), parse_games(''), write_games([]),
            parse_games(write_games(g)) == g, max(len(l) for l in write_games([{'Event': 'x' * 70}]).splitlines()), write_games([{'Event': 'x' * 70}]).count('\n'),
            parse_games('[ Board  "1" ]\n[Board "2"]')[0]['Board'], [sorted(d) for d in parse_games('[B "1"]\n\n[A "1"]\n[B "2"]')], TAG.match('[A "x"] tail').group(2), TAG.fullmatch('[A "x"] tail')]


class Phase:
    def __init__(self, hands: Dict[Seat, Set[Card]], trump: Optional[Suit], leader: Seat):
        self.hands = hands
        self.trump = trump
        self.leader = self.turn = leader
        self.trick: List[Card] = []
        self.history: List[Trick] = []
        self.won = {'NS': 0, 'EW': 0}

    def legal(self, seat: Seat) -> Set[Card]:
        hand = self.hands[seat]
        if not self.trick:
            return hand
        follow = {c for c in hand if c.suit is self.trick[0].suit}
        return follow or hand

    def play(self, seat: Seat, card: Card) -> None:
        if seat is not self.turn:
            raise ValueError('turn')
        if card not in self.hands[seat]:
            raise ValueError('card')
        self.hands[seat].remove(card)
        self.trick.append(card)
        if len(self.trick) < 4:
            self.turn = self.turn.next
            return
        trumps = [c for c in self.trick if c.suit is self.trump]
        pool = trumps or [c for c in self.trick if c.suit is self.trick[0].suit]
        win = self.trick.index(max(pool, key=lambda c: c.rank))
        self.history.append(Trick(self.leader, tuple(self.trick)))
        for _ in range(win):
            self.leader = self.leader.next
        self.won[self.leader.side] += 1
        self.turn = self.leader
        self.trick = []


def t_play_machine():
    ph = Phase(deal(), Suit.H, Seat.E)
    log = []
    step = 0
    while any(ph.hands.values()) and step < 60:
        seat = ph.turn
        opts = sorted(ph.legal(seat))
        card = opts[(step * 7) % len(opts)]
        ph.play(seat, card)
        step += 1
        if not ph.trick:
            log.append((ph.history[-1].leader.name, ''.join(str(c) for c in ph.history[-1].cards), ph.leader.name))
    errs = []
    ph2 = Phase(deal(), None, Seat.N)
    for seat, card in ((Seat.E, Card.from_int(1)), (Seat.N, Card.from_int(1))):
        try:
            ph2.play(seat, card)
        except ValueError as e:
            errs.append(str(e))
    return [log, ph.won, sum(ph.won.values()), step, len(ph.history), errs, len(ph2.hands[Seat.N]), ph.history[0] == Trick(Seat.E, ph.history[0].cards), ph.history[0][0].name]
