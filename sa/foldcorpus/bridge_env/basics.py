from typing import Optional, List, Dict, Tuple


def t_int_div_mod():
    return [(-7) // 2, (-7) % 2, 7 // -2, 7 % -2, divmod(-7, 2), divmod(7, -2), -7 // 13, -1 % 13, (0 - 1) % 4, 2 ** 10, 7 / 2, int(7 / 2), int(-3.5), round(2.5), round(3.5), abs(-3)]


def t_bool_arith():
    return [True + True, sum([True, False, True]), int(True), True == 1, False == 0, True is 1, bool(0), bool(''), bool([]), bool([0]), bool(None), not 0, not '', 1 if [] else 2, isinstance(True, int)]


def t_chained_cmp():
    a = 5
    return [1 < a < 10, 1 < a < 5, 1 < a <= 5, 0 <= a - 5 < 1, 1 == 1 != 2, 'a' < 'b' < 'c', (1, 2) < (1, 3), (1, 2) < (1, 2, 0), [1, 2] == [1, 2], (1,) == (1,), 3 > 2 > 1 > 0]


def t_short_circuit():
    log = []

    def f(x):
        log.append(x)
        return x
    r = [f(0) or f(2), f(1) and f(3), f(0) and f(4), f('') or f('z') or f('q'), None or 0, 0 or None, [] or {}, 1 and [] and 5]
    return r, log


def t_ternary_none():
    x: Optional[int] = None
    y = 0
    return [x if x is not None else -1, y if y else -1, y if y is not None else -1, (x or 7), (y or 7)]


def t_slices():
    s = list(range(10))
    t = 'abcdefghij'
    return [s[:3], s[-3:], s[::2], s[::-1], s[1:-1:3], s[-0:], s[:-0], s[10:], s[:100], s[-100:2], t[:3], t[-3:], t[::-1], t[3:3], t[5:2], t[-1], t[0], s[len(s) - 1], t[2:-2], s[7:2:-2]]


def t_slice_assign():
    s = list(range(6))
    s[:2] = [9]
    a = list(range(6))
    a[1:4] = []
    b = list(range(6))
    b[::2] = ['x', 'y', 'z']
    c = list(range(4))
    c[len(c):] = [7, 8]
    d = list(range(4))
    d[-0:] = [0]
    e = list(range(5))
    del e[1:3]
    f = list(range(5))
    del f[0]
    return [s, a, b, c, d, e, f]


def t_negative_zero_slice():
    out = []
    for k in range(0, 4):
        xs = [1, 2, 3, 4]
        out.append((xs[-k:], xs[:-k], xs[len(xs) - k:]))
    return out


def t_unpack():
    a, *b = [1, 2, 3]
    *c, d = 'xyz'
    e, (f, g), h = 1, (2, 3), 4
    i, j = j0, i0 = 5, 6
    (k, l), m = [7, 8], 9
    first, *_, last = range(10)
    x = y = []
    x.append(1)
    return [a, b, c, d, e, f, g, h, i, j, j0, i0, k, l, m, first, last, y]


def t_swap_and_aug():
    a, b = 1, 2
    a, b = b, a + b
    xs = [1, 2]
    ys = xs
    ys += [3]
    zs = xs
    zs = zs + [4]
    t = (1,)
    u = t
    u += (2,)
    s = 'a'
    s *= 3
    n = 10
    n //= 3
    n **= 2
    n %= 5
    n -= 7
    m = 6
    m |= 9
    m &= 12
    m ^= 5
    m <<= 2
    m >>= 1
    return [a, b, xs, ys, zs, t, u, s, n, m]


def t_string_methods():
    s = '  North bids 1NT  '
    return [s.strip(), s.lstrip(), s.rstrip(), s.split(), s.split(' '), s.strip().split(' ', 1), s.strip().rsplit(' ', 1), 'a,b,,c'.split(','), ''.split(), ''.split(','), 'abc'.partition('b'), 'abc'.partition('x'), 'a.b.c'.rpartition('.'), 'NT'.startswith('N'), 'NT'.startswith(('X', 'N')), 'XX'.endswith('X'), 'xx'.upper(), 'North'.lower(), 'nORTH sOUTH'.capitalize(), 'north south'.title(), 'n/s'.title(), 'abc'.find('c'), 'abc'.find('z'), 'a-b'.replace('-', ''), 'aaa'.replace('a', 'b', 2), 'aXbXc'.count('X'), '7'.isdigit(), 'x7'.isdigit(), ''.isdigit(), '7'.zfill(3), 'ab'.center(6, '*'), 'ab'.ljust(4) + '|', 'ab'.rjust(4), ' '.join(['a', 'b']), ''.join([]), 'a\r\nb\n'.splitlines(), 'a\r\nb\n'.splitlines(True), 'abc'.isalpha(), 'ab c'.isalnum(), 'ABC'.isupper(), 'ß'.upper(), 'İ'.lower() == 'i̇', 'Straße'.casefold(), 'abc'.index('b'), 'a' in 'abc', 'ac' in 'abc', 'abc' * 2, 'abc'[1], len('héllo'), 'x'.join('abc'), '%d-%s' % (3, 'q'), '{}-{a}'.format(1, a=2), '{:>4}|{:<4}|{:^4}|{:04d}|{:+d}|{:x}'.format('a', 'b', 'c', 42, 5, 255), 'abc'.removeprefix('ab'), 'abc'.removesuffix('bc'), 'a b'.swapcase(), 'abc'.lstrip('ab'), 'abcba'.strip('ab'), 'a\tb'.expandtabs(4), 'AbC'.istitle()]


def t_fstrings():
    n = 7
    s = 'ab'
    f = 3.14159
    d = {'k': 1}
    return [f'{n}', f'{n:3d}|', f'{n:<3}|', f'{n:03}', f'{s!r}', f'{s:>5}', f'{f:.2f}', f'{n + 1}', f'{d["k"]}', f'{{x}}', f'{n!s:>3}', f'{"N" if n > 3 else "S"}', f'{n=}', f'{s * 2}', f'{n:{3}}', f'{None}', f'{True}', f'{[1, 2]}', f'{(1,)}', f'{ {1: 2} }', f'{1.0}', f'{1e3}', f'{10 ** 20}', f'{-n:+}']


def t_str_repr_builtin():
    return [str(1), str(None), str(True), str([1, 'a']), str((1,)), str({'a': 1}), repr('a'), repr("a'b"), str(1.5), str({1, }), repr(b'a'), str(b'a'), repr(None), str(()), str([]), repr(''), str(-0.0), str(2 ** 70), repr('\n'), str([None, True])]


def t_int_str_conv():
    out = [int('7'), int(' 7 '), int('-3'), int('007'), int('1_0'), int('ff', 16), int(7.9), int(True), float('1.5'), str(int('10') + 1), chr(65), ord('a'), hex(255), bin(5), oct(8), int('٣')]
    for bad in ['', 'x', '1.5', '1 2', None, [1]]:
        try:
            out.append(int(bad))
        except (ValueError, TypeError) as e:
            out.append(type(e).__name__)
    return out


def t_dict_semantics():
    d = {'b': 1, 'a': 2}
    d['c'] = 3
    d['b'] = 9
    order1 = list(d)
    del d['b']
    d['b'] = 1
    order2 = list(d.items())
    e = dict(d)
    e.update({'a': 0, 'z': 5})
    e.update(q=1)
    f = {**d, 'a': 7, **{'n': 1}}
    g = d.setdefault('a', 100), d.setdefault('new', 100), d
    h = {}
    h.setdefault('k', []).append(1)
    h.setdefault('k', []).append(2)
    p = {'x': 1}
    popped = p.pop('x'), p.pop('x', None), p.pop('y', 5)
    keys = d.keys()
    d['late'] = 0
    k2 = list(keys)
    return [order1, order2, e, f, g, h, popped, k2, d.get('nope'), d.get('nope', 3), 'a' in d, 2 in d, list(d.values()), dict.fromkeys('ab', 0), dict(zip('ab', [1, 2])), dict([('a', 1)]), {k: v for k, v in [('a', 1), ('a', 2)]}, len(d), d == dict(reversed(list(d.items()))), {1: 'a', True: 'b', 1.0: 'c'}, sorted(d), max(d), list(reversed(d)), d | {'a': -1}, {True: 1}.get(1)]


def t_dict_popitem_iter_mutation():
    d = {'a': 1, 'b': 2, 'c': 3}
    last = d.popitem()
    out = [last, d]
    try:
        for k in d:
            d[k + 'x'] = 0
    except RuntimeError as e:
        out.append('RuntimeError')
    try:
        {}['k']
    except KeyError as e:
        out.append(('KeyError', e.args))
    try:
        {}.popitem()
    except KeyError:
        out.append('KeyError2')
    return out


def t_list_methods():
    xs = [3, 1, 2]
    xs.append(5)
    xs.extend([4, 4])
    xs.insert(0, 9)
    xs.insert(100, 8)
    xs.insert(-1, 7)
    i = xs.index(4)
    c = xs.count(4)
    xs.remove(4)
    p = xs.pop()
    q = xs.pop(0)
    ys = sorted(xs)
    xs.sort(reverse=True)
    zs = xs.copy()
    zs.reverse()
    ws = xs[:]
    ws.clear()
    out = [xs, ys, zs, ws, i, c, p, q, [1, 2] + [3], [0] * 3, [[]] * 2, 3 in xs, xs == list(xs), list('abc'), list(range(3, 0, -1)), [1, 2] < [1, 3], min(xs), max(xs), sum(xs), len(xs)]
    try:
        [].pop()
    except IndexError:
        out.append('IndexError')
    try:
        [1].remove(2)
    except ValueError:
        out.append('ValueError')
    try:
        [1].index(2)
    except ValueError:
        out.append('ValueError')
    try:
        [1][1]
    except IndexError:
        out.append('IndexError')
    return out


def t_alias_nested():
    row = [0, 0]
    grid = [row] * 2
    grid[0][0] = 1
    g2 = [[0, 0] for _ in range(2)]
    g2[0][0] = 1
    d = dict.fromkeys(['a', 'b'], [])
    d['a'].append(1)
    import copy
    orig = {'k': [1, {'z': 2}]}
    sh = copy.copy(orig)
    dp = copy.deepcopy(orig)
    orig['k'][1]['z'] = 3
    orig['k'].append(4)
    t = ([1], 2)
    t[0].append(9)
    return [grid, g2, d, sh, dp, t, list(orig['k']) is orig['k'], orig['k'][:] == orig['k']]


def t_set_ops():
    a = {1, 2, 3}
    b = {3, 4}
    out = [sorted(a | b), sorted(a & b), sorted(a - b), sorted(a ^ b), a <= {1, 2, 3, 4}, a < a, a == {3, 2, 1}, a.isdisjoint({9}), 1 in a, len(a)]
    a.add(3)
    a.discard(99)
    a.update([7, 8])
    a -= {7}
    a |= {10}
    a &= {1, 2, 3, 8, 10}
    out.append(sorted(a))
    try:
        a.remove(99)
    except KeyError:
        out.append('KeyError')
    f = frozenset([1, 2])
    out += [f == {1, 2}, hash(f) == hash(frozenset([2, 1])), sorted(set('hello')), {1, 1.0, True} == {1}, sorted({(1, 2), (1, 2)}), set() == set([]), sorted(a.union([99], (98,))), sorted(a.intersection([1, 99])), sorted(a.difference([1])), a.issubset(range(20)), a.issuperset([1])]
    p = {5}
    out.append(p.pop())
    return out


def t_sorting():
    recs = [('b', 2), ('a', 2), ('c', 1), ('a', 1)]
    byn = sorted(recs, key=lambda r: r[1])
    byn_rev = sorted(recs, key=lambda r: r[1], reverse=True)
    byname = sorted(recs)
    multi = sorted(recs, key=lambda r: (-r[1], r[0]))
    words = sorted(['b', 'A', 'c', 'B'], key=str.lower)
    xs = [3, 1, 2]
    r = xs.sort()
    return [byn, byn_rev, byname, multi, words, r, xs, sorted('bca'), sorted({3: 'x', 1: 'y'}), sorted([True, 0, 2]), sorted([(1, 'b'), (1, 'a')]), sorted([[2], [1, 5], []]), list(reversed(sorted(recs, key=lambda r: r[1]))), min(recs, key=lambda r: r[1]), max(recs, key=lambda r: r[1]), min([], default=None), max([1, 3, 3, 2]), max('a', 'b'), min(3, 1, 2), max([], default=-1), min((2, 'a'), (2, 'B'))]


def t_builtins_iter():
    xs = ['a', 'b', 'c']
    return [list(enumerate(xs)), list(enumerate(xs, 1)), list(zip(xs, [1, 2])), list(zip()), list(zip(xs, xs, xs))[0], list(map(str.upper, xs)), list(map(lambda a, b: a + b, xs, xs)), list(filter(None, [0, 1, '', 'a'])), list(filter(lambda x: x > 'a', xs)), any([]), all([]), any([0, '']), all([1, 'a']), any(x == 'b' for x in xs), sum([], 5), sum([[1], [2]], []), list(range(0)), list(range(5, 0, -2)), len(range(3, 10, 3)), 5 in range(10), range(10)[3], range(10)[-1], list(range(10)[2:5]), next(iter(xs)), next(iter([]), 'dflt'), list(reversed(xs)), list(reversed(range(3))), list(iter(xs)), tuple(xs), isinstance(xs, (list, tuple)), isinstance('a', str), callable(len), list(map(int, '123')), list(zip(*[(1, 2), (3, 4)])), dict(enumerate('ab')), sum(x * x for x in range(4)), list(zip(range(3), 'ab', strict=False))]


def t_iter_exhaustion():
    it = iter([1, 2, 3])
    a = list(it)
    b = list(it)
    g = (x * 2 for x in range(3))
    c = sum(g)
    d = sum(g)
    z = zip([1, 2], [3, 4])
    e = list(z)
    f = list(z)
    m = map(str, [1, 2])
    h = ''.join(m)
    i = ''.join(m)
    en = enumerate('ab')
    first = next(en)
    rest = list(en)
    it2 = iter('abcd')
    pairs = list(zip(it2, it2))
    r = reversed([1, 2])
    j = list(r), list(r)
    fl = filter(None, [0, 1])
    k = list(fl), list(fl)
    return [a, b, c, d, e, f, h, i, first, rest, pairs, j, k, 2 in iter([1, 2, 3]), list(dict(a=1).items()) * 2]


def t_comprehensions():
    xs = range(5)
    i = 99
    sq = [i * i for i in xs if i % 2]
    nested = [(a, b) for a in range(3) for b in range(a)]
    dd = {a: [b for b in range(a)] for a in range(3)}
    ss = sorted({a % 2 for a in xs})
    flat = [c for row in [[1, 2], [3]] for c in row]
    cond = ['e' if a % 2 == 0 else 'o' for a in xs]
    gen = list(a for a in xs if a > 2)
    mat = [[r * c for c in range(3)] for r in range(2)]
    late = [lambda: k for k in range(3)]
    bound = [lambda k=k: k for k in range(3)]
    return [sq, nested, dd, ss, flat, cond, gen, mat, i, [f() for f in late], [f() for f in bound], [y for x in [1, 2] if (y := x * 10) > 10], y]


def t_closures():
    def counter():
        n = 0

        def inc(by=1):
            nonlocal n
            n += by
            return n
        return inc
    c1, c2 = counter(), counter()
    fs = []
    for i in range(3):
        fs.append(lambda: i)
    gs = []
    for i in range(3):
        def g(i=i):
            return i
        gs.append(g)

    def outer():
        x = 1

        def inner():
            return x
        x = 2
        return inner
    return [c1(), c1(5), c2(), [f() for f in fs], [g() for g in gs], outer()()]


def t_default_args():
    def acc(x, bucket=[]):
        bucket.append(x)
        return bucket

    def acc2(x, bucket=None):
        if bucket is None:
            bucket = []
        bucket.append(x)
        return bucket
    n = 5

    def early(k=n):
        return k
    n = 6

    def kw(a, b=2, *args, c=3, **kwargs):
        return (a, b, args, c, sorted(kwargs.items()))

    def ko(a, /, b, *, c):
        return (a, b, c)
    r = [acc(1), acc(2), acc2(1), acc2(2), early(), kw(1), kw(1, 5, 6, 7, c=8, d=9), kw(*[1, 2], **{'c': 0}), ko(1, 2, c=3), ko(1, b=2, c=3)]
    for bad in (lambda: kw(), lambda: ko(1, 2, 3), lambda: kw(1, a=2), lambda: ko(a=1, b=2, c=3)):
        try:
            bad()
        except TypeError:
            r.append('TypeError')
    return r


def t_exceptions():
    log = []

    def f(k):
        try:
            log.append(('try', k))
            if k == 1:
                raise ValueError('v')
            if k == 2:
                raise KeyError('k')
            if k == 3:
                return 'ret'
            if k == 4:
                raise ZeroDivisionError
        except ValueError as e:
            log.append(('val', str(e)))
            return 'caught'
        except (KeyError, IndexError) as e:
            log.append(('key', repr(e), e.args))
            raise RuntimeError('wrapped') from e
        else:
            log.append(('else', k))
        finally:
            log.append(('fin', k))
        return 'end'
    out = []
    for k in range(5):
        try:
            out.append(f(k))
        except Exception as e:
            out.append((type(e).__name__, str(e), type(e.__cause__).__name__ if e.__cause__ else None))
    return out, log


def t_finally_overrides():
    def a():
        try:
            return 1
        finally:
            return 2

    def b():
        for i in range(3):
            try:
                continue
            finally:
                if i == 1:
                    break
        return i

    def c():
        try:
            raise ValueError
        finally:
            return 'swallowed'

    def d():
        x = []
        try:
            try:
                raise KeyError('a')
            finally:
                x.append('inner')
        except KeyError:
            x.append('outer')
        return x
    return [a(), b(), c(), d()]


def t_exception_hierarchy():
    class BridgeError(Exception):
        pass

    class BidError(BridgeError, ValueError):
        def __init__(self, bid):
            super().__init__(f'bad bid {bid}')
            self.bid = bid
    out = []
    for exc, kinds in [(BidError('7NT'), (ValueError,)), (BidError('x'), (BridgeError,)), (KeyError('a'), (LookupError,)), (IndexError(), (LookupError,)), (UnicodeDecodeError('utf-8', b'', 0, 1, 'r'), (ValueError,)), (ConnectionResetError(), (OSError,)), (ConnectionError(), (IOError,)), (TimeoutError(), (OSError,)), (FileNotFoundError(), (OSError,)), (StopIteration(), (Exception,)), (KeyboardInterrupt(), (Exception,)), (AssertionError(), (Exception,)), (NotImplementedError(), (RuntimeError,)), (RecursionError(), (RuntimeError,)), (ModuleNotFoundError(), (ImportError,)), (BrokenPipeError(), (ConnectionError,)), (ZeroDivisionError(), (ArithmeticError,)), (OverflowError(), (ArithmeticError,))]:
        try:
            raise exc
        except kinds as e:
            out.append((type(e).__name__, 'caught', str(e)))
        except BaseException as e:
            out.append((type(e).__name__, 'base'))
    e = BidError('1C')
    return out, e.bid, e.args, isinstance(e, ValueError), str(KeyError('k')), str(ValueError('a', 'b')), repr(ValueError('a'))


def t_with_statement():
    log = []

    class CM:
        def __init__(self, name, swallow=False):
            self.name = name
            self.swallow = swallow

        def __enter__(self):
            log.append(('enter', self.name))
            return self.name.upper()

        def __exit__(self, et, ev, tb):
            log.append(('exit', self.name, et.__name__ if et else None))
            return self.swallow

    def run(k):
        with CM('a') as a, CM('b', swallow=(k == 2)) as b:
            log.append((a, b))
            if k:
                raise ValueError('boom')
            return 'ok'
        return 'after'
    out = []
    for k in (0, 1, 2):
        try:
            out.append(run(k))
        except ValueError:
            out.append('VE')
    return out, log


def t_loops_else():
    out = []
    for xs in ([1, 2, 3], [1, 5, 3], []):
        for x in xs:
            if x == 5:
                out.append('found')
                break
        else:
            out.append('none')
    n = 0
    while n < 3:
        n += 1
        if n == 10:
            break
    else:
        out.append(('while-else', n))
    i = 0
    while True:
        i += 1
        if i % 2:
            continue
        if i > 6:
            break
    out.append(i)
    for i in range(3):
        pass
    out.append(i)
    for i, (a, b) in enumerate([(1, 2), (3, 4)]):
        out.append(i + a + b)
    xs = [1, 2, 3, 4]
    for x in xs:
        if x == 2:
            xs.remove(x)
    out.append(xs)
    ys = [1, 2, 3]
    for y in ys[:]:
        ys.remove(y)
    out.append(ys)
    return out


def t_walrus_match():
    out = []
    data = [('bid', 1, 'NT'), ('pass',), ('card', 'SA'), {'k': 1, 'z': 2}, [1, 2, 3, 4], 7, 'str', None, ('bid', 8, 'C'), 3.0, True]
    for d in data:
        match d:
            case ('bid', int(level), str(suit)) if level <= 7:
                out.append(('B', level, suit))
            case ('pass',):
                out.append('P')
            case ('card', str(c)):
                out.append(('C', c))
            case {'k': v, **rest}:
                out.append(('D', v, rest))
            case [first, *mid, last]:
                out.append(('L', first, mid, last))
            case True:
                out.append('true')
            case 7 | 8:
                out.append('78')
            case str() as s:
                out.append(('S', s))
            case None:
                out.append('N')
            case float(f):
                out.append(('F', f))
            case _:
                out.append(('other', d))
    if (n := len(data)) > 3:
        out.append(n)
    while (m := n - 9) > 0:
        n -= 1
    out.append((n, m))
    return out


def t_globals_state():
    _reset()
    out = [_bump(), _bump(), _COUNTER[0], _reset()]
    return out


_COUNTER = [0]
_TOTAL = 0


def _bump():
    global _TOTAL
    _COUNTER[0] += 1
    _TOTAL += 10
    return _TOTAL + _COUNTER[0]


def _reset():
    global _TOTAL
    _TOTAL = 0
    _COUNTER[0] = 0
    return _TOTAL


def t_recursion_and_varargs():
    def fact(n):
        return 1 if n <= 1 else n * fact(n - 1)

    def flat(x):
        if isinstance(x, (list, tuple)):
            return [z for y in x for z in flat(y)]
        return [x]

    def apply(f, *a, **k):
        return f(*a, **k)
    return [fact(10), flat([1, [2, (3, [4])], 5]), apply(max, 1, 5, 3), apply(sorted, [3, 1], reverse=True), apply(lambda *a: a), apply(lambda **k: k, z=1)]


def t_bytes():
    b = 'héllo\r\n'.encode('utf-8')
    out = [b, len(b), b[0], b[-1], b[:2], b[-2:] == b'\r\n', b.endswith(b'\r\n'), b.decode('utf-8'), b[:-2].decode(), bytes([104, 105]), b'a' + b'b', b'ab' == 'ab'.encode(), b'\r' == b'\r\n'[:1], b'\r\n'[0] == 13, b'\r\n'[0:1] == b'\r', list(b'ab'), b''.join([b'a', b'b']), bytes(2), b'abc'.index(b'c'), b'abc'.find(b'z'), b'a b'.split(), b'AB'.lower(), b'x' * 2, b'a' in b'abc', 97 in b'abc', bytes(b'ab'), b''.decode(), not b'', b'a' < b'b', b'abc'.replace(b'b', b''), b'a\r\nb'.split(b'\r\n'), b'abc'.startswith(b'ab'), 'é'.encode('latin-1'), 'é'.encode('ascii', 'replace'), 'é'.encode('ascii', 'ignore'), b'\xc3\xa9'.decode('utf-8'), b'\xff'.decode('utf-8', 'replace'), b'\xff'.decode('latin-1')]
    for bad in (lambda: b'\xff'.decode('utf-8'), lambda: 'é'.encode('ascii'), lambda: b'\xc3'.decode(), lambda: b'a' + 'b', lambda: b'abc'.index(b'z')):
        try:
            bad()
        except (UnicodeError, TypeError, ValueError) as e:
            out.append(type(e).__name__)
    ba = bytearray()
    ba += b'ab'
    ba.append(99)
    ba.extend(b'de')
    out += [bytes(ba), len(ba), ba[-2:] == b'de', ba.decode(), ba == b'abcde', bytes(ba[:2]), ba.endswith(b'e'), ba.find(b'c')]
    del ba[:2]
    out.append(bytes(ba))
    return out
