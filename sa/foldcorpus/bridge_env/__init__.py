"""Corpus for sa.foldtest: small programs whose value under sa.fold must equal their value under CPython (fidelity of the analyser's model of Python).  Not part of the analysed repository."""
