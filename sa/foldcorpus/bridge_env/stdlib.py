import collections
import copy
import functools
import itertools
import json
import operator
import re
from collections import Counter, OrderedDict, defaultdict, deque, namedtuple


def t_re_basics():
    out = []
    m = re.match(r'(\w+) bids (\d)(C|D|H|S|NT)', 'North bids 1NT Alert')
    out += [m.group(0), m.group(1), m.groups(), m.group(2, 3), m.start(2), m.end(), m.span(3)]
    out.append(re.fullmatch(r'(\w+) bids (\d)(C|D|H|S|NT)', 'North bids 1NT Alert'))
    out.append(re.match(r'(\d)(N|NT)$', '1NT').groups())
    out.append(re.match(r'(\d)(N|NT)', '1NT').groups())
    out.append(re.match(r'(\d)(NT|N)', '1NT').groups())
    out.append(re.search(r'X+', 'aXXb').group())
    out.append(re.search(r'X+?', 'aXXb').group())
    out.append(re.match(r'".*"', '"a" "b"').group())
    out.append(re.match(r'".*?"', '"a" "b"').group())
    out.append(re.match(r'"[^"]*"', '"a" "b"').group())
    out.append(re.findall(r'\[(\w+) "([^"]*)"\]', '[Board "1"] [Dealer "N"]'))
    out.append(re.findall(r'\d+', 'a1b22c'))
    out.append(re.findall(r'(a)(b)?', 'ab a'))
    out.append(re.sub(r'\s+', ' ', 'a  b\t\nc'))
    out.append(re.sub(r'(\w)(\d)', r'\2\1', 'S1 H2'))
    out.append(re.sub(r'x', lambda mm: mm.group().upper(), 'axbx', count=1))
    out.append(re.split(r'[ ,]+', 'a, b  c'))
    out.append(re.split(r'(-)', 'a-b'))
    out.append(re.split(r'\.', 'AK..2.'))
    out.append(bool(re.match(r'^\s*$', ' \t\r\n')))
    out.append(bool(re.match(r'^\s*$', ' x')))
    out.append(bool(re.fullmatch(r'[ \t]*', '')))
    out.append(re.match(r'north', 'NORTH', re.IGNORECASE).group())
    out.append(re.match(r'north', 'NORTH'))
    out.append(re.match(r'a.c', 'a\nc'))
    out.append(re.match(r'a.c', 'a\nc', re.DOTALL).group())
    out.append(re.findall(r'^\w', 'ab\ncd', re.M))
    out.append(re.match(r'a$', 'a\n').group())
    out.append(re.fullmatch(r'a', 'a\n'))
    out.append(re.match(r'a\Z', 'a\n'))
    p = re.compile(r'(?P<seat>[NESW]):(?P<rest>.*)')
    mm = p.match('N:AK.Q')
    out += [mm.group('seat'), mm['rest'], mm.groupdict(), p.pattern, p.groups]
    out.append([x.group() for x in re.finditer(r'[A-Z]\d', 'S1 H2 x3')])
    out.append(re.match(r'(a)|(b)', 'b').groups())
    out.append(re.match(r'(a)?b', 'b').group(1))
    out.append(re.match(r'(?:ab)+', 'ababa').group())
    out.append(re.escape('a.b'))
    out.append(re.match(r'\d{2,3}', '12345').group())
    out.append(re.match(r'[^"]{16}', 'x' * 20).end())
    out.append(re.match(r'(?i)pass(es)?', 'PASSES').group(1))
    out.append(re.match(r'''(?x) (\d)   # level
                         ([CDHS]|NT)''', '3NT').groups())
    out.append(re.subn(r'a', 'b', 'aaa'))
    out.append(re.match('a|ab', 'ab').group())
    out.append(re.fullmatch('a|ab', 'ab').group())
    out.append(re.match(r'\bN\b', 'N S') is not None)
    out.append(re.match(r'\bN\b', 'NS') is not None)
    return out


def t_json():
    d = {'b': [1, 2.5, None, True], 'a': {'z': 'é', 'n': -1}, 'e': [], 's': 'q"\\\n', 1: 'intkey'}
    s1 = json.dumps(d)
    s2 = json.dumps(d, sort_keys=False, ensure_ascii=False)
    s3 = json.dumps(d, indent=2)
    s4 = json.dumps([1, {'a': 2}], separators=(',', ':'))
    s5 = json.dumps({'t': (1, 2)})
    back = json.loads(s1)
    out = [s1, s2, s3, s4, s5, back, back == d, list(back), json.loads('{"a": 1, "a": 2}'), json.loads('[1.0, 1, "1", null, false]'), json.loads(' {"x": {"y": []}} '), json.dumps('é'), json.dumps(None), json.dumps({'k': None}), json.loads('"\\u00e9"'), json.dumps({2: 'a', 1: 'b'}, sort_keys=True), json.dumps(float('inf'))]
    for bad in (lambda: json.loads('{"a": 1,}'), lambda: json.loads(''), lambda: json.dumps({'a': {1, 2}}), lambda: json.dumps({(1, 2): 1}), lambda: json.loads('{"a": 1}]')):
        try:
            bad()
        except (ValueError, TypeError) as e:
            out.append(type(e).__name__)
    return out


def t_itertools():
    it = itertools
    return [list(it.chain([1], 'ab', ())), list(it.chain.from_iterable([[1], [2, 3]])), list(it.islice(it.count(5), 3)), list(it.islice('abcdef', 1, 5, 2)), list(it.islice(it.cycle('ab'), 5)), list(it.repeat('x', 2)), list(it.accumulate([1, 2, 3])), list(it.accumulate([1, 2, 3], operator.mul)), list(it.accumulate([1, 2], initial=10)), list(it.takewhile(lambda x: x < 3, [1, 2, 5, 1])), list(it.dropwhile(lambda x: x < 3, [1, 2, 5, 1])), list(it.product('ab', [1, 2])), list(it.product([0, 1], repeat=2)), list(it.permutations('abc', 2)), list(it.combinations('abc', 2)), list(it.zip_longest('ab', [1], fillvalue='-')), [(k, list(g)) for k, g in it.groupby('aabbbac')], [(k, len(list(g))) for k, g in it.groupby([1, 3, 2, 4, 5], key=lambda x: x % 2)], list(it.starmap(pow, [(2, 3), (3, 2)])), list(it.compress('abc', [1, 0, 1])), list(it.filterfalse(None, [0, 1, 2])), list(it.pairwise('abcd')), [list(x) for x in it.tee([1, 2], 2)], list(it.batched('abcde', 2)) if hasattr(it, 'batched') else None]


def t_functools_operator():
    add3 = functools.partial(lambda a, b, c=0: (a, b, c), 1, c=3)
    calls = []

    @functools.lru_cache(maxsize=None)
    def sq(x):
        calls.append(x)
        return x * x

    @functools.wraps(sq)
    def wrapper(x):
        return sq(x) + 1

    def deco(f):
        @functools.wraps(f)
        def w(*a, **k):
            calls.append('w')
            return f(*a, **k)
        return w

    @deco
    def plain(x):
        return -x
    ig = operator.itemgetter(1)
    ig2 = operator.itemgetter(0, 2)
    ag = operator.attrgetter('real')
    mc = operator.methodcaller('upper')
    out = [add3(2), functools.reduce(operator.add, [1, 2, 3]), functools.reduce(lambda a, b: a * b, [], 1), functools.reduce(operator.or_, [1, 2, 4]), sq(3), sq(3), sq(4), calls[:], wrapper(3), wrapper.__name__, plain(2), plain.__name__, ig('abc'), ig2('abc'), ag(5), mc('x'), operator.neg(3), operator.not_(0), operator.eq(1, 1.0), operator.is_(None, None), operator.contains([1], 1), operator.getitem({'a': 1}, 'a'), operator.mod(-1, 4), operator.floordiv(-7, 2), operator.truediv(1, 2), operator.lt(1, 2), operator.concat([1], [2]), operator.index(3), sorted([(1, 'b'), (0, 'c')], key=operator.itemgetter(1)), sq.cache_info().hits]
    try:
        functools.reduce(operator.add, [])
    except TypeError:
        out.append('TypeError')
    return out


def t_collections():
    dq = deque([1, 2, 3], maxlen=3)
    dq.append(4)
    dq.appendleft(0)
    d2 = deque('ab')
    d2.extend('cd')
    d2.rotate(1)
    pl = d2.popleft()
    pr = d2.pop()
    dd = defaultdict(list)
    dd['a'].append(1)
    _ = dd['b']
    probe = 'c' in dd
    di = defaultdict(int)
    for ch in 'abca':
        di[ch] += 1
    c = Counter('abracadabra')
    c2 = Counter(a=1) + Counter(a=2, b=1)
    od = OrderedDict([('b', 1), ('a', 2)])
    od.move_to_end('b')
    od2 = OrderedDict([('a', 2), ('b', 1)])
    P = namedtuple('P', 'x y')
    P2 = namedtuple('P2', ['x', 'y'], defaults=[0])
    p = P(1, 2)
    cm = collections.ChainMap({'a': 1}, {'a': 2, 'b': 3})
    out = [list(dq), dq.maxlen, list(d2), pl, pr, len(d2), dict(dd), sorted(dd), probe, dd.get('zz'), dict(di), c.most_common(2), c['z'], sorted(c.elements())[:3], dict(c2), sum(c.values()), list(od), od == od2, dict(od) == dict(od2), p.x + p.y, p._replace(x=5), P2(1), p == (1, 2), P._fields, cm['a'], cm['b'], sorted(cm), deque() == deque([]), bool(deque()), dq[0], dq[-1], list(reversed(dq)), 4 in dq, dq.count(4), deque([1, 2]) == deque([1, 2], maxlen=5)]
    try:
        deque().popleft()
    except IndexError:
        out.append('IndexError')
    try:
        dd2 = defaultdict()
        dd2['x']
    except KeyError:
        out.append('KeyError')
    return out


def t_copy_semantics():
    class Box:
        def __init__(self, items):
            self.items = items
            self.meta = {'n': len(items)}

        def __eq__(self, o):
            return isinstance(o, Box) and self.items == o.items and self.meta == o.meta
    b = Box([[1], [2]])
    s = copy.copy(b)
    d = copy.deepcopy(b)
    b.items[0].append(9)
    b.meta['n'] = 5
    shared = [1]
    pair = [shared, shared]
    dp = copy.deepcopy(pair)
    dp[0].append(2)
    lst = [1, [2]]
    return [s.items, d.items, s.meta, d.meta, s.items is b.items, d == b, s == b, dp, dp[0] is dp[1], lst.copy()[1] is lst[1], list(lst)[1] is lst[1], lst[:][1] is lst[1], dict({'a': lst})['a'] is lst, copy.deepcopy((1, 2)) == (1, 2), copy.copy({1, 2}) == {1, 2}, tuple(lst)[1] is lst[1]]


def t_generators():
    log = []

    def gen(n):
        log.append('start')
        try:
            for i in range(n):
                log.append(('yield', i))
                got = yield i
                if got:
                    log.append(('got', got))
        finally:
            log.append('cleanup')
        return 'done'

    g = gen(3)
    a = next(g)
    b = g.send('hi')
    g.close()
    rest = list(g)

    def deleg():
        r = yield from gen(2)
        yield r
        yield from 'ab'

    def lines(chunks):
        buf = ''
        for ch in chunks:
            buf += ch
            while '\n' in buf:
                line, buf = buf.split('\n', 1)
                yield line
        if buf:
            yield buf

    def inf():
        n = 0
        while True:
            yield n
            n += 1
    import itertools
    out = [a, b, rest, list(deleg()), list(lines(['ab', 'c\nd', '\n', 'e\nf'])), list(itertools.islice(inf(), 3)), next(x for x in inf() if x > 4), sum(1 for _ in gen(2)), list(zip(gen(2), 'xyz')), log[:6]]
    g2 = gen(1)
    next(g2)
    try:
        next(g2)
    except StopIteration as e:
        out.append(('stop', e.value))
    g3 = (i for i in range(3))
    out += [2 in g3, list(g3)]
    return out


def t_contextlib():
    import contextlib
    import io
    log = []

    @contextlib.contextmanager
    def cm(name):
        log.append('in ' + name)
        try:
            yield name.upper()
        except KeyError:
            log.append('handled')
        finally:
            log.append('out ' + name)
    with cm('a') as v:
        log.append(v)
    with cm('b'):
        raise KeyError('x')
    try:
        with cm('c'):
            raise ValueError
    except ValueError:
        log.append('propagated')
    with contextlib.suppress(KeyError, IndexError):
        [][1]
        log.append('unreached')
    with contextlib.ExitStack() as st:
        st.callback(lambda: log.append('cb1'))
        st.enter_context(cm('d'))
        st.callback(lambda: log.append('cb2'))
    s = io.StringIO()
    with contextlib.closing(s) as f:
        f.write('hello')
        f.write('\nworld')
        val = f.getvalue()
    with contextlib.nullcontext(5) as five:
        log.append(five)
    buf = io.StringIO('l1\nl2\r\n\nl4')
    rl = [buf.readline(), buf.readline(), buf.readline(), buf.readline(), buf.readline()]
    buf2 = io.StringIO('a\nb\n')
    it = [line for line in buf2]
    w = io.StringIO()
    print('x', 1, sep='-', end='!\n', file=w)
    w.writelines(['a\n', 'b'])
    bio = io.BytesIO(b'ab\r\ncd')
    br = [bio.read(1), bio.read(2), bio.read(100), bio.read(1)]
    return [log, val, s.closed, rl, it, w.getvalue(), br, io.StringIO('abc').read(2), io.StringIO('a\nb').read().splitlines()]


def t_numbers_misc():
    return [0.1 + 0.2 == 0.3, round(0.1 + 0.2, 10), 1e3 == 1000, 10 // 3 * 3 + 10 % 3, -(-7 // 2), 7 // 2, 2 ** -1, 5 // 2.0, int('12') * 2, 1_000, 0x10, 0b11, 3 & 1, 4 | 1, 6 ^ 3, ~5, 1 << 4, -8 >> 1, (13).bit_length(), bin(13).count('1'), divmod(50, 13), 50 % 13 + 2, 51 // 13 + 1, max(-3, min(3, 7)), abs(-0.5), pow(2, 5, 7), float(3), 3 == 3.0, hash(3) == hash(3.0), 10 ** 2 // 3, -10 ** 2, (-10) ** 2, 7 * -1 // 2, int(-0.9), 1 / 3 * 3 == 1.0, isinstance(3 / 1, float), 6 // 2 is 3, sum([0.1] * 3), 2 * 3 % 4, not 1 == 2, 1 < 2 == True]
