from __future__ import annotations

import functools
import operator
from functools import partial, reduce
from itertools import product, starmap
from abc import ABC, abstractmethod
from dataclasses import dataclass, field, replace, asdict, astuple
from enum import Enum, IntEnum, Flag, auto, unique
from typing import NamedTuple, Optional, List, Dict, ClassVar


class Seat(Enum):
    N = 1
    E = 2
    S = 3
    W = 4

    @property
    def nxt(self):
        return Seat(self.value % 4 + 1)

    @property
    def partner(self) -> 'Seat':
        return Seat((self.value + 1) % 4 + 1)

    def __str__(self):
        return self.name

    @classmethod
    def parse(cls, s: str) -> 'Seat':
        return cls[s.upper()]


class Strain(IntEnum):
    C = 1
    D = 2
    H = 3
    S = 4
    NT = 5


class Dbl(Flag):
    NONE = 0
    X = auto()
    XX = auto()


class Alias(Enum):
    A = 1
    B = 1
    C = 2


class Planet(Enum):
    MERCURY = (1, 'm')
    VENUS = (2, 'v')

    def __init__(self, num, letter):
        self.num = num
        self.letter = letter


def t_enum_basics():
    out = [Seat.N.nxt.name, Seat.W.nxt.name, Seat.N.partner.name, Seat.E.partner.name, str(Seat.S), repr(Seat.S), f'{Seat.S}', Seat['E'].value, Seat(3).name, Seat.parse('w').name, [s.name for s in Seat], len(Seat), Seat.N is Seat(1), Seat.N == Seat.N, Seat.N == 1, Seat.N != Seat.E, Seat.N in (Seat.N, Seat.E), {Seat.N: 1}[Seat(1)], sorted(Seat, key=lambda s: -s.value)[0].name, list(Seat)[1:3] == [Seat.E, Seat.S], isinstance(Seat.N, Seat), Seat.N.name + Seat.E.name, hash(Seat.N) == hash(Seat.N), Seat.__members__['S'].value, list(Seat.__members__), bool(Seat.N), Seat.N.value + 1]
    for bad in (lambda: Seat(5), lambda: Seat['X'], lambda: Seat.N < Seat.E, lambda: Seat('N')):
        try:
            bad()
        except (ValueError, KeyError, TypeError) as e:
            out.append(type(e).__name__)
    return out


def t_intenum_flag_alias():
    out = [Strain.C < Strain.NT, Strain.S == 4, Strain.NT + 1, int(Strain.H), Strain(5).name, sorted([Strain.S, Strain.C])[0].name, max(Strain).name, Strain.C in (1, 2), {4: 'x'}[Strain.S], Strain.NT > 4, str(Strain.C), f'{Strain.C}', repr(Strain.C), Strain.H.value, 5 * (2 - 1) + Strain.H, list(range(Strain.C, Strain.H)), 'CDHS'[Strain.D - 1], divmod(12, Strain.NT)]
    d = Dbl.NONE
    out += [bool(d), bool(Dbl.X), Dbl.X in Dbl.X | Dbl.XX, Dbl.XX in Dbl.X, (Dbl.X | Dbl.XX).value, (Dbl.X | Dbl.XX) & ~Dbl.X == Dbl.XX, Dbl(0) is Dbl.NONE, Dbl.X.value, Dbl.XX.value, (d | Dbl.X) == Dbl.X, Dbl.X & Dbl.XX == Dbl.NONE, Dbl.X ^ Dbl.X == Dbl.NONE]
    out += [Alias.A is Alias.B, Alias(1).name, Alias['B'].name, [a.name for a in Alias], len(Alias), list(Alias.__members__), Alias.B == Alias.A]
    out += [Planet.VENUS.num, Planet.MERCURY.letter, Planet.VENUS.value, Planet((1, 'm')).name]
    return out


@dataclass
class Pt:
    x: int
    y: int = 0
    tags: List[str] = field(default_factory=list)
    kind: ClassVar[str] = 'pt'

    def norm1(self):
        return abs(self.x) + abs(self.y)


@dataclass(frozen=True)
class FPt:
    x: int
    y: int = 0


@dataclass(order=True)
class Ranked:
    rank: int
    name: str = field(compare=False, default='')


@dataclass
class WithPost:
    a: int
    b: int = field(init=False)
    c: List[int] = field(default_factory=list, repr=False)

    def __post_init__(self):
        self.b = self.a * 2


class Rec(NamedTuple):
    leader: str
    cards: tuple = ()

    def first(self):
        return self.cards[0] if self.cards else None


def t_dataclasses():
    p = Pt(1)
    q = Pt(1, 0)
    p.tags.append('a')
    out = [p == q, Pt(1) == Pt(1), p is q, repr(Pt(2, 3)), p.norm1(), q.tags, Pt.kind, p.kind, asdict(Pt(1, 2, ['z'])), astuple(FPt(1, 2)), replace(FPt(1, 2), y=5), FPt(1) == FPt(1, 0), hash(FPt(1)) == hash(FPt(1, 0)), {FPt(1): 'a'}[FPt(1, 0)], len({FPt(1), FPt(1, 0)}), Ranked(1, 'b') < Ranked(2, 'a'), Ranked(1, 'b') == Ranked(1, 'zzz'), sorted([Ranked(3), Ranked(1)])[0].rank, WithPost(4).b, repr(WithPost(1)), Pt(1) != Pt(2), Pt(x=3, y=4).y, FPt(1) == Pt(1)]
    for bad in (lambda: setattr(FPt(1), 'x', 2), lambda: hash(Pt(1)), lambda: Pt(), lambda: Pt(1) < Pt(2), lambda: WithPost(1, 2)):
        try:
            bad()
        except Exception as e:
            out.append(type(e).__name__)
    return out


def t_namedtuple():
    r = Rec('N', ('SA', 'S2'))
    lead, cards = r
    out = [r.leader, r[1], lead, cards, r.first(), Rec('E').first(), r == ('N', ('SA', 'S2')), r._replace(leader='S').leader, r._asdict(), Rec._fields, len(r), tuple(r), Rec('N') == Rec('N', ()), hash(Rec('N')) == hash(('N', ())), repr(Rec('N')), Rec(cards=(1,), leader='W'), r < Rec('S'), list(r), isinstance(r, tuple), r + (1,)]
    for bad in (lambda: setattr(r, 'leader', 'E'), lambda: Rec(), lambda: r[2]):
        try:
            bad()
        except Exception as e:
            out.append(type(e).__name__)
    return out


class Base:
    registry: List[str] = []
    count = 0

    def __init__(self, name):
        self.name = name
        self._log = []
        Base.count += 1
        self.registry.append(name)

    def hello(self):
        return 'base:' + self.who()

    def who(self):
        return self.name

    def step(self, x):
        self._log.append(('base', x))
        return x + 1

    @staticmethod
    def util(a, b=1):
        return a * b

    @classmethod
    def make(cls, name):
        return cls(name)

    @property
    def upper(self):
        return self.name.upper()

    @upper.setter
    def upper(self, v):
        self.name = v.lower()


class Mid(Base):
    def who(self):
        return 'mid(' + super().who() + ')'

    def step(self, x):
        self._log.append(('mid', x))
        return super().step(x * 2)


class Mixin:
    def who(self):
        return 'mix[' + super().who() + ']'

    def extra(self):
        return 'extra'


class Leaf(Mixin, Mid):
    count = 100

    def __init__(self, name, k=0):
        super().__init__(name)
        self.k = k

    def step(self, x):
        r = super().step(x + self.k)
        self._log.append(('leaf', r))
        return r


def t_inheritance_mro():
    Base.registry.clear()
    Base.count = 0
    b = Base('b')
    m = Mid.make('m')
    l = Leaf('l', 3)
    out = [b.hello(), m.hello(), l.hello(), l.step(1), l._log, [c.__name__ for c in Leaf.__mro__], Base.count, Leaf.count, l.count, Base.registry, l.registry is Base.registry, Base.util(3), l.util(3, 2), type(m).__name__, isinstance(l, Mixin), isinstance(m, Leaf), issubclass(Leaf, Base), l.extra(), b.upper, hasattr(l, 'k'), hasattr(b, 'k'), getattr(b, 'k', None), type(l) is Leaf, l.__class__.__name__]
    b.upper = 'ZED'
    out.append(b.name)
    b.count = 7
    out += [b.count, Base.count, m.count]
    Leaf.count += 1
    out += [Leaf.count, Base.count]
    return out


@functools.total_ordering
class Card:
    __slots__ = ('rank', 'suit')

    def __init__(self, rank, suit):
        self.rank = rank
        self.suit = suit

    def __int__(self):
        return self.rank - 2 + 13 * self.suit

    def __eq__(self, other):
        if not isinstance(other, Card):
            return NotImplemented
        return int(self) == int(other)

    def __lt__(self, other):
        if not isinstance(other, Card):
            return NotImplemented
        return int(self) < int(other)

    def __hash__(self):
        return hash(int(self))

    def __repr__(self):
        return f'Card({self.rank},{self.suit})'

    def __str__(self):
        return 'CDHS'[self.suit] + '..23456789TJQKA'[self.rank]

    def __format__(self, spec):
        return format(str(self), spec)

    def __bool__(self):
        return True

    def __index__(self):
        return int(self)


def t_operator_dunders():
    a, b, c = Card(14, 3), Card(2, 0), Card(14, 3)
    out = [a == c, a is c, a != b, a > b, a >= c, b <= a, a < b, sorted([a, b, c]), max([b, a]), {a: 1}[c], len({a, b, c}), a in [c], [b, a].index(c), str(a), repr(b), f'{a}', f'{a:>4}', f'{a!r}', '%s' % a, [str(x) for x in sorted({a, b})], a == 'SA', a != 51, int(a), list(range(60))[a], [a, b].count(c), min(a, b, key=int), hex(a)]
    for bad in (lambda: a < 3, lambda: setattr(a, 'foo', 1), lambda: a.foo):
        try:
            bad()
        except (TypeError, AttributeError) as e:
            out.append(type(e).__name__)
    return out


class Hand:
    def __init__(self, cards):
        self._cards = list(cards)

    def __len__(self):
        return len(self._cards)

    def __iter__(self):
        return iter(sorted(self._cards))

    def __contains__(self, c):
        return c in self._cards

    def __getitem__(self, i):
        return self._cards[i]

    def __add__(self, other):
        return Hand(self._cards + list(other))

    def __radd__(self, other):
        return Hand(list(other) + self._cards)

    def __iadd__(self, other):
        self._cards.extend(other)
        return self

    def __eq__(self, other):
        return isinstance(other, Hand) and sorted(self._cards) == sorted(other._cards)

    def __call__(self, k):
        return self._cards[:k]

    def __neg__(self):
        return Hand(reversed(self._cards))


class NoLen:
    def __getitem__(self, i):
        if i >= 3:
            raise IndexError
        return i * 10


class Countdown:
    def __init__(self, n):
        self.n = n

    def __iter__(self):
        return self

    def __next__(self):
        if self.n <= 0:
            raise StopIteration
        self.n -= 1
        return self.n


def t_container_protocols():
    h = Hand([3, 1, 2])
    e = Hand([])
    h2 = h
    h2 += [9]
    out = [len(h), list(h), 2 in h, 7 in h, h[0], h[-1], h[1:], bool(h), bool(e), not e, 'empty' if not e else 'full', list(h + [4]), list([0] + h), h == Hand([9, 2, 1, 3]), h != e, h(2), list(-h), sum(h), max(h), sorted(h, reverse=True), list(NoLen()), 10 in NoLen(), list(Countdown(3)), list(zip(Countdown(2), Countdown(5))), [x for x in h if x > 1], dict.fromkeys(h), tuple(h), set(h) == {1, 2, 3, 9}, h is h2, list(map(str, h)), any(h), all(h), list(enumerate(h))[0], [*h, *e], list(reversed(h))]
    c = Countdown(2)
    out += [list(c), list(c)]
    try:
        hash(h)
    except TypeError:
        out.append('unhashable')
    return out


class Shape(ABC):
    @abstractmethod
    def area(self):
        ...

    def describe(self):
        return f'{type(self).__name__}:{self.area()}'


class Sq(Shape):
    def __init__(self, s):
        self.s = s

    def area(self):
        return self.s ** 2


class Lazy:
    def __init__(self):
        self._d = {'a': 1}

    def __getattr__(self, name):
        if name.startswith('_'):
            raise AttributeError(name)
        try:
            return self._d[name]
        except KeyError:
            raise AttributeError(name) from None


def t_abc_getattr():
    out = [Sq(3).describe()]
    try:
        Shape()
    except TypeError:
        out.append('TypeError')
    z = Lazy()
    out += [z.a, getattr(z, 'b', 'dflt'), hasattr(z, 'a'), hasattr(z, 'q')]
    try:
        z.b
    except AttributeError as e:
        out.append(('AttributeError', str(e)))
    return out


class Machine:
    """State kept in a class with properties and private names."""
    LIMIT = 3

    def __init__(self):
        self.__secret = 0
        self._hist: List[int] = []
        self.state: Optional[str] = None

    def __bump(self):
        self.__secret += 1
        return self.__secret

    def push(self, v):
        if len(self._hist) >= self.LIMIT:
            raise OverflowError('full')
        self._hist.append(v)
        self.state = 'busy'
        return self.__bump()

    @property
    def hist(self):
        return tuple(self._hist)

    @functools.cached_property
    def frozen_len(self):
        return len(self._hist)


def t_private_names_and_state():
    m = Machine()
    out = [m.push(5), m.push(6), m.hist, m.frozen_len, m.push(7), m.frozen_len, m._Machine__secret, m.state, hasattr(m, '__secret'), sorted(k for k in vars(m))]
    try:
        m.push(8)
    except OverflowError as e:
        out.append(str(e))
    out.append(m.hist)
    n = Machine()
    out += [n.hist, n.state is None, Machine.LIMIT]
    n.LIMIT = 1
    n.push(1)
    try:
        n.push(2)
    except OverflowError:
        out.append('n full')
    out.append(Machine.LIMIT)
    return out


def t_operator_on_objects():
    keep = list(filter(partial(operator.is_not, Seat.N), Seat))
    pts = list(starmap(FPt, product(range(2), filter(partial(operator.ne, 1), range(3)))))
    return [[s.name for s in keep], len(pts), operator.is_(Seat.N, Seat(1)), operator.eq(FPt(1), FPt(1, 0)), operator.contains([Seat.N], Seat(1)), operator.lt(Strain.C, Strain.NT),
            operator.add(Strain.C, 1), operator.getitem({'a': Seat.E}, 'a').name, operator.not_(Dbl.NONE), operator.truth(Dbl.X), reduce(operator.or_, [Dbl.X, Dbl.XX]).value,
            operator.countOf([Seat.N, Seat.E, Seat(1)], Seat.N), operator.indexOf([Seat.E, Seat.N], Seat.N), sorted([FPt(2), FPt(1)], key=operator.attrgetter('x'))[0].x,
            operator.methodcaller('norm1')(Pt(-2, 3)), operator.itemgetter(1)([Seat.N, Seat.S]).name, operator.attrgetter('nxt.name')(Seat.N), operator.neg(Strain.D)]
