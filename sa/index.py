"""E1 - program index: modules, classes (MRO), functions, enum members,
module constants, import aliases, callee resolution.  Pure `ast`; the subject
package is never imported."""
from __future__ import annotations

import ast
import hashlib
import os
from typing import Dict, Iterator, List, Optional, Tuple


class AnalysisError(Exception):
    """A rule could not be evaluated: vanished anchor / unrecognised shape /
    instance floor not met.  Reported as ANALYSIS-ERROR, exit 2 - never a
    silent pass and never a VIOLATION."""

    def __init__(self, rule: str, anchor: str, why: str):
        super().__init__(f'rule={rule} anchor={anchor} :: {why}')
        self.rule, self.anchor, self.why = rule, anchor, why


PKG = 'bridge_env'


class ClassInfo:
    def __init__(self, module: 'ModuleInfo', node: ast.ClassDef, qual: str):
        self.module, self.node, self.name = module, node, qual
        self.methods: Dict[str, ast.FunctionDef] = {}
        self.assigns: Dict[str, ast.expr] = {}      # class-level NAME = expr
        self.annots: Dict[str, ast.expr] = {}       # class-level NAME: T [= expr]
        self.order: List[str] = []                  # class-level names in source order
        self.late: set = set()                       # class attributes bound by `Cls.NAME = expr` at module level
        self.setters: Dict[tuple, ast.FunctionDef] = {}   # (property name, 'setter' | 'deleter') -> function
        self.decorators = [ast.unparse(d) for d in node.decorator_list]
        for st in node.body:
            if isinstance(st, (ast.FunctionDef,)):
                acc = [ast.unparse(d).split('.')[-1] for d in st.decorator_list if isinstance(d, ast.Attribute)]
                if any(a in ('setter', 'deleter') for a in acc) and st.name in self.methods:
                    self.setters[(st.name, 'setter' if 'setter' in acc else 'deleter')] = st       # property accessor: the getter keeps the name
                    continue
                self.methods[st.name] = st
            elif isinstance(st, ast.Assign) and len(st.targets) == 1 and isinstance(st.targets[0], ast.Name):
                self.assigns[st.targets[0].id] = st.value
                self.order.append(st.targets[0].id)
            elif isinstance(st, ast.AnnAssign) and isinstance(st.target, ast.Name):
                self.annots[st.target.id] = st.annotation
                self.order.append(st.target.id)
                if st.value is not None:
                    self.assigns[st.target.id] = st.value
        self.base_names = [ast.unparse(b) for b in node.bases]

    ENUM_BASES = ('Enum', 'IntEnum', 'Flag', 'IntFlag', 'StrEnum')

    @property
    def enum_kind(self):
        """'Enum' | 'IntEnum' | 'Flag' | 'IntFlag' | 'StrEnum' for an enumeration class (by its base in the source), else None."""
        for b in self.base_names:
            k = b.split('.')[-1]
            if k in self.ENUM_BASES:
                if k == 'Enum' and any(x.split('.')[-1] == 'int' for x in self.base_names):
                    return 'IntEnum'
                if k == 'Enum' and any(x.split('.')[-1] == 'str' for x in self.base_names):
                    return 'StrEnum'
                return k
        return None

    @property
    def is_enum(self) -> bool:
        return self.enum_kind is not None

    @property
    def is_dataclass(self) -> bool:
        return any(d.startswith('dataclass') for d in self.decorators)

    @property
    def is_namedtuple(self) -> bool:
        return 'NamedTuple' in self.base_names

    def enum_members(self) -> Dict[str, object]:
        """name -> constant value, in source order (only literal-valued members)."""
        out: Dict[str, object] = {}
        flag = self.enum_kind in ('Flag', 'IntFlag')
        for n in self.order:
            v = self.assigns.get(n)
            if isinstance(v, ast.Call) and ast.unparse(v.func).split('.')[-1] == 'auto' and not v.args and not n.startswith('_'):
                # enum.auto(): 1, 2, 3 ... after the last value (next power of two for flags; the lower-cased name for StrEnum)
                if self.enum_kind == 'StrEnum':
                    out[n] = n.lower()
                else:
                    ints = [x for x in out.values() if isinstance(x, int) and not isinstance(x, bool)]
                    if flag:
                        hi = max(ints) if ints else 0
                        out[n] = 1 if hi == 0 else 1 << hi.bit_length()
                    else:
                        out[n] = (ints[-1] + 1) if ints else 1
                continue
            if isinstance(v, ast.Constant) and not n.startswith('_'):
                out[n] = v.value
            elif isinstance(v, ast.UnaryOp) and isinstance(v.op, ast.USub) and isinstance(v.operand, ast.Constant) \
                    and isinstance(v.operand.value, (int, float)) and not n.startswith('_'):
                out[n] = -v.operand.value
            elif isinstance(v, (ast.Attribute, ast.Name, ast.BinOp, ast.Call, ast.Subscript, ast.JoinedStr, ast.List, ast.Dict, ast.Set)) and not n.startswith('_') \
                    and n not in self.annots:
                # a member whose value is a computed expression (another enumeration's member, a call ...): kept as the expression, evaluated
                # by the folder where the value is needed
                out[n] = v
            elif isinstance(v, ast.Tuple) and not n.startswith('_'):
                # a member whose value is a tuple of literals (the arguments of the enumeration's __init__)
                try:
                    out[n] = ast.literal_eval(v)
                except (ValueError, SyntaxError):
                    pass
        return out

    def method_kind(self, name: str) -> str:
        if name not in self.methods and isinstance(self.assigns.get(name), ast.Name) and self.assigns[name].id in self.methods:
            name = self.assigns[name].id        # `alias = method` in the class body
        fn = self.methods[name]
        decs = [ast.unparse(d) for d in fn.decorator_list]
        if any(d.split('.')[-1] == 'cached_property' for d in decs):
            return 'cached_property'
        if 'property' in decs:
            return 'property'
        if 'staticmethod' in decs:
            return 'static'
        if 'classmethod' in decs:
            return 'class'
        return 'method'

    def __repr__(self):
        return f'<class {self.module.name}.{self.name}>'


class ModuleInfo:
    def __init__(self, name: str, path: str, src: str):
        self.name, self.path, self.src = name, path, src
        self.tree = ast.parse(src, filename=path)
        self.classes: Dict[str, ClassInfo] = {}
        self.functions: Dict[str, ast.FunctionDef] = {}
        self.constants: Dict[str, ast.expr] = {}
        self.imports: Dict[str, Tuple[str, Optional[str]]] = {}  # alias -> (module, name|None)
        for node in ast.walk(self.tree):
            for ch in ast.iter_child_nodes(node):
                ch._parent = node  # type: ignore[attr-defined]
        self._scan(self.tree.body, prefix='')

    def _scan(self, body, prefix):
        for st in body:
            if isinstance(st, ast.ClassDef):
                qual = prefix + st.name
                ci = ClassInfo(self, st, qual)
                self.classes[qual] = ci
                self._scan([s for s in st.body if isinstance(s, ast.ClassDef)], prefix=qual + '.')
            elif isinstance(st, ast.FunctionDef) and not prefix:
                self.functions[st.name] = st
            elif isinstance(st, ast.Assign) and not prefix and len(st.targets) == 1 \
                    and isinstance(st.targets[0], ast.Name):
                self.constants[st.targets[0].id] = st.value
            elif isinstance(st, ast.AnnAssign) and not prefix and isinstance(st.target, ast.Name) \
                    and st.value is not None:
                self.constants[st.target.id] = st.value
            elif isinstance(st, ast.Assign) and not prefix and len(st.targets) == 1 and isinstance(st.targets[0], ast.Attribute) \
                    and isinstance(st.targets[0].value, ast.Name) and st.targets[0].value.id in self.classes:
                # `Cls.NAME = expr` at module level, after the class statement: a class attribute bound once at import time (evaluated in module scope)
                ci_ = self.classes[st.targets[0].value.id]
                if st.targets[0].attr not in ci_.assigns and st.targets[0].attr not in ci_.methods:
                    ci_.assigns[st.targets[0].attr] = st.value
                    ci_.late.add(st.targets[0].attr)
                    if st.targets[0].attr not in ci_.order:
                        ci_.order.append(st.targets[0].attr)
            elif isinstance(st, ast.ImportFrom) and not prefix:
                base = self._resolve_from(st)
                for a in st.names:
                    self.imports[a.asname or a.name] = (base, a.name)
            elif isinstance(st, ast.Import) and not prefix:
                for a in st.names:
                    self.imports[a.asname or a.name.split('.')[0]] = (a.name, None)

    def _resolve_from(self, st: ast.ImportFrom) -> str:
        if st.level == 0:
            return st.module or ''
        parts = self.name.split('.')
        is_pkg = os.path.basename(self.path) == '__init__.py'
        if is_pkg:
            base = parts[:len(parts) - (st.level - 1)]
        else:
            base = parts[:-st.level]
        if st.module:
            base = base + st.module.split('.')
        return '.'.join(base)


class Repo:
    """All modules of the analysed tree."""

    def __init__(self, root: str):
        self.root = os.path.abspath(root)
        self.modules: Dict[str, ModuleInfo] = {}
        pkgdir = os.path.join(self.root, PKG)
        if not os.path.isdir(pkgdir):
            raise AnalysisError('index', pkgdir, 'package directory not found')
        for dp, dn, fn in os.walk(pkgdir):
            dn[:] = sorted(d for d in dn if d != '__pycache__')
            for f in sorted(fn):
                if not f.endswith('.py'):
                    continue
                path = os.path.join(dp, f)
                rel = os.path.relpath(path, self.root)[:-3].split(os.sep)
                if rel[-1] == '__init__':
                    rel = rel[:-1]
                name = '.'.join(rel)
                with open(path, encoding='utf-8') as fh:
                    src = fh.read()
                try:
                    self.modules[name] = ModuleInfo(name, path, src)
                except SyntaxError as e:
                    raise AnalysisError('index', path, f'does not parse: {e}')
        self._class_by_name: Dict[str, ClassInfo] = {}
        dup = set()
        for m in self.modules.values():
            for q, c in m.classes.items():
                if q in self._class_by_name:
                    dup.add(q)
                self._class_by_name[q] = c
        self._dup = dup

    # -- inventory ---------------------------------------------------------
    def digest(self) -> str:
        h = hashlib.sha1()
        for n in sorted(self.modules):
            h.update(n.encode())
            h.update(self.modules[n].src.encode())
        return h.hexdigest()[:12]

    def inventory(self) -> dict:
        nfun = sum(len(m.functions) + sum(len(c.methods) for c in m.classes.values())
                   for m in self.modules.values())
        return {'modules': len(self.modules),
                'classes': sum(len(m.classes) for m in self.modules.values()),
                'functions': nfun, 'source_digest': self.digest()}

    # -- lookup ------------------------------------------------------------
    def module(self, name: str, rule: str = 'index') -> ModuleInfo:
        full = name if name.startswith(PKG) else f'{PKG}.{name}'
        if full not in self.modules:
            raise AnalysisError(rule, full, 'module not found')
        return self.modules[full]

    def cls(self, name: str, rule: str = 'index') -> ClassInfo:
        if name in self._dup:
            raise AnalysisError(rule, name, 'class name is ambiguous')
        if name not in self._class_by_name:
            raise AnalysisError(rule, name, 'class not found')
        return self._class_by_name[name]

    def has_cls(self, name: str) -> bool:
        return name in self._class_by_name

    def mro(self, ci: ClassInfo) -> List[ClassInfo]:
        out: List[ClassInfo] = []

        def visit(c: ClassInfo):
            if c in out:
                return
            out.append(c)
            for b in c.base_names:
                bc = self.resolve_class_name(c.module, b)
                if bc is not None:
                    visit(bc)
        visit(ci)
        return out

    def resolve_class_name(self, mod: ModuleInfo, name: str) -> Optional[ClassInfo]:
        """Resolve a (possibly dotted) name used in `mod` to a package class."""
        head = name.split('.')[0]
        if name in mod.classes:
            return mod.classes[name]
        if head in mod.imports:
            src_mod, src_name = mod.imports[head]
            target = self._follow(src_mod, src_name)
            if target is not None:
                rest = name.split('.')[1:]
                q = '.'.join([target.name] + rest) if rest else target.name
                return target.module.classes.get(q)
        return None

    def _follow(self, mod_name: str, attr: Optional[str], depth=0) -> Optional[ClassInfo]:
        if depth > 6 or attr is None:
            return None
        m = self.modules.get(mod_name)
        if m is None:
            return None
        if attr in m.classes:
            return m.classes[attr]
        if attr in m.imports:
            mm, aa = m.imports[attr]
            return self._follow(mm, aa, depth + 1)
        return None

    def resolve_name(self, mod: ModuleInfo, name: str):
        """Resolve a bare name in `mod`: ('class', ClassInfo) | ('func', ModuleInfo, FunctionDef)
        | ('const', ModuleInfo, expr) | ('module', modname) | None."""
        return self._resolve_name(mod, name, 0)

    def _resolve_name(self, mod, name, depth):
        if depth > 6:
            return None
        if name in mod.classes:
            return ('class', mod.classes[name])
        if name in mod.functions:
            return ('func', mod, mod.functions[name])
        if name in mod.constants:
            return ('const', mod, mod.constants[name])
        if name in mod.imports:
            mm, aa = mod.imports[name]
            if aa is None:
                return ('module', mm)
            m2 = self.modules.get(mm)
            if m2 is None:
                sub = f'{mm}.{aa}'
                if sub in self.modules:
                    return ('module', sub)
                return ('external', mm, aa)
            r = self._resolve_name(m2, aa, depth + 1)
            if r is None and f'{mm}.{aa}' in self.modules:
                return ('module', f'{mm}.{aa}')
            return r
        return None

    def method(self, cls_name: str, meth: str, rule: str = 'index') -> Tuple[ClassInfo, ast.FunctionDef]:
        """Find `meth` on class `cls_name` following the MRO."""
        ci = self.cls(cls_name, rule)
        for c in self.mro(ci):
            if meth in c.methods:
                return c, c.methods[meth]
        raise AnalysisError(rule, f'{cls_name}.{meth}', 'method not found')

    def own_method(self, cls_name: str, meth: str, rule: str = 'index') -> ast.FunctionDef:
        ci = self.cls(cls_name, rule)
        if meth not in ci.methods:
            raise AnalysisError(rule, f'{cls_name}.{meth}', 'method not defined on this class')
        return ci.methods[meth]

    def has_method(self, cls_name: str, meth: str) -> bool:
        if not self.has_cls(cls_name):
            return False
        return any(meth in c.methods for c in self.mro(self.cls(cls_name)))

    def function(self, module: str, name: str, rule: str = 'index') -> Tuple[ModuleInfo, ast.FunctionDef]:
        m = self.module(module, rule)
        if name not in m.functions:
            raise AnalysisError(rule, f'{m.name}:{name}', 'function not found')
        return m, m.functions[name]

    def all_functions(self) -> Iterator[Tuple[ModuleInfo, Optional[ClassInfo], ast.FunctionDef]]:
        for m in self.modules.values():
            for f in m.functions.values():
                yield m, None, f
            for c in m.classes.values():
                for f in c.methods.values():
                    yield m, c, f

    def where(self, mod: ModuleInfo, node: ast.AST) -> str:
        return f'{os.path.relpath(mod.path, self.root)}:{getattr(node, "lineno", 0)}'


def clone(node):
    """Deep copy of an AST following `_fields` only (the parent links are not copied)."""
    if isinstance(node, ast.AST):
        new = node.__class__()
        for f in node._fields:
            if hasattr(node, f):
                setattr(new, f, clone(getattr(node, f)))
        for a in ('lineno', 'col_offset', 'end_lineno', 'end_col_offset'):
            if hasattr(node, a):
                setattr(new, a, getattr(node, a))
        return new
    if isinstance(node, list):
        return [clone(x) for x in node]
    return node


def parent(node: ast.AST) -> Optional[ast.AST]:
    return getattr(node, '_parent', None)


def enclosing_function(node: ast.AST) -> Optional[ast.FunctionDef]:
    p = parent(node)
    while p is not None and not isinstance(p, (ast.FunctionDef, ast.Lambda)):
        p = parent(p)
    return p if isinstance(p, ast.FunctionDef) else None


def norm(node: ast.AST) -> str:
    """Normalised construct text (stable under reformatting)."""
    return ast.unparse(node)


def key_of(text: str) -> str:
    return hashlib.sha1(text.encode()).hexdigest()[:10]
