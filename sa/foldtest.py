"""Fidelity test of the analyser's model of Python (sa.fold) - part of the trusted base, run in the thorough tier and by hand.

Every verdict that comes from evaluating the subject's AST inside the analyser is only as good as sa.fold's agreement with
CPython.  The corpus under sa/foldcorpus/ (a stand-alone package of small programs written for this purpose - NOT the analysed
repository) exercises the Python semantics that realistic changes to the repository lean on: integer division and modulo of negative
numbers, truthiness, slices with negative and zero bounds, aliasing, dict order, sort stability, iterator exhaustion, closures and
default arguments, exception flow through try/except/else/finally and with, MRO / super(), enum kinds, dataclasses, NamedTuples,
operator dunders, container protocols, generators, the string / bytes / re / json / itertools / functools / collections libraries.

Each corpus function t_*() is evaluated twice: by CPython (the corpus is ours, so executing it is no execution of the subject) and by
sa.fold over its AST.  Outcomes per function:   agree | unsupported (the folder refuses: an analysis error, never a verdict) | MISMATCH.
A MISMATCH is a defect of the analyser's model: a possible false alarm or miss in every rule built on folding.

usage: /venv/bin/python -m sa.foldtest [-v] [name-substring ...]        exit 0 = no mismatch
"""
from __future__ import annotations

import collections
import enum
import importlib.util
import os
import sys
import threading

from .fold import DV, EV, ClsRef, Bound, Folder, FoldRaise, Unsupported
from .index import AnalysisError, Repo

CORPUS = os.path.join(os.path.dirname(os.path.abspath(__file__)), 'foldcorpus')


def _items(d):
    return [(plain(k), plain(v)) for k, v in d.items()]


def plain(v, depth=0):
    """A comparable rendering of a value of either world."""
    if depth > 40:
        return '<deep>'
    if isinstance(v, EV):
        return ('enum', v.cls.name, v.name if v.name is not None else plain(v.value))
    if isinstance(v, enum.Enum):
        return ('enum', type(v).__name__, v.name if v.name is not None else plain(v.value))
    if isinstance(v, DV):
        if v.cls.is_namedtuple:
            return ('nt', v.cls.name, [(k, plain(x, depth + 1)) for k, x in v.fields.items()])
        return ('obj', v.cls.name, sorted((k.split('__', 1)[-1] if k.startswith('_') and '__' in k[1:] else k, plain(x, depth + 1)) for k, x in v.fields.items()))
    if isinstance(v, (ClsRef,)):
        return ('class', v.cls.name)
    if isinstance(v, type):
        return ('class', v.__name__)
    if isinstance(v, bool) or v is None or isinstance(v, (int, str, bytes)):
        return v
    if isinstance(v, float):
        return ('float', repr(v))
    if isinstance(v, bytearray):
        return ('bytearray', bytes(v))
    if isinstance(v, tuple) and hasattr(v, '_fields'):
        return ('nt', type(v).__name__, [(k, plain(x, depth + 1)) for k, x in zip(v._fields, v)])
    if isinstance(v, tuple):
        if v and isinstance(v[0], str) and v[0] in ('lambda', 'closure', 'func', 'pyfunc', 'builtin', 'strmethod', 'pymodule', 'extern'):
            return '<callable>'
        return ('tuple', [plain(x, depth + 1) for x in v])
    if isinstance(v, list):
        return [plain(x, depth + 1) for x in v]
    if isinstance(v, collections.deque):
        return ('deque', [plain(x, depth + 1) for x in v])
    if isinstance(v, dict):
        return ('dict', _items(v))
    if isinstance(v, (set, frozenset)):
        return ('set', sorted((repr(plain(x, depth + 1)) for x in v)))
    if isinstance(v, Bound) or callable(v):
        return '<callable>'
    if hasattr(v, '__dict__') or hasattr(type(v), '__slots__'):
        names = list(getattr(v, '__dict__', {})) + [s for c in type(v).__mro__ for s in getattr(c, '__slots__', ()) if hasattr(v, s)]
        cn = type(v).__name__
        return ('obj', cn, sorted((k[len(cn) + 1:].lstrip('_') if k.startswith(f'_{cn}__') else k, plain(getattr(v, k), depth + 1)) for k in names))
    return ('?', type(v).__name__, repr(v))


def _cpython(modname, path):
    spec = importlib.util.spec_from_file_location(f'_foldcorpus_{modname}', path)
    m = importlib.util.module_from_spec(spec)
    sys.modules[spec.name] = m
    spec.loader.exec_module(m)
    return m


def explode(src_root: str, dst_root: str) -> None:
    """Writes a copy of the corpus in which every function ending in `return [e1, ..., en]` is accompanied by n functions returning
    one element each (same preceding statements), so that one construct outside the folder's subset does not hide the others."""
    import ast
    import copy
    pk = os.path.join(src_root, 'bridge_env')
    os.makedirs(os.path.join(dst_root, 'bridge_env'))
    for f in sorted(os.listdir(pk)):
        if not f.endswith('.py'):
            continue
        tree = ast.parse(open(os.path.join(pk, f), encoding='utf-8').read())
        extra = []

        def emit(st, k, tag, stmts, value):
            g = copy.deepcopy(st)
            g.name = f'{st.name}__{k:02d}{tag}'
            g.body = copy.deepcopy(st.body[:k]) + stmts + [ast.Return(value=value)]
            extra.append(g)
        for st in tree.body:
            if not (isinstance(st, ast.FunctionDef) and st.name.startswith('t_')):
                continue
            for k, b in enumerate(st.body):
                lst = None
                if isinstance(b, ast.Return) and isinstance(b.value, ast.List):
                    lst = b.value
                elif isinstance(b, (ast.Assign, ast.AugAssign)) and isinstance(b.value, ast.List) and ast.unparse(b.targets[0] if isinstance(b, ast.Assign) else b.target) == 'out':
                    lst = b.value
                if lst is not None:
                    for i, e in enumerate(lst.elts):
                        if not isinstance(e, ast.Starred):
                            emit(st, k, f'_{i:02d}', [], copy.deepcopy(e))
                elif isinstance(b, ast.Expr) and isinstance(b.value, ast.Call) and ast.unparse(b.value.func) == 'out.append':
                    emit(st, k, '', [], copy.deepcopy(b.value.args[0]))
                elif isinstance(b, ast.For) and isinstance(b.iter, ast.Tuple) and len(st.body) > k and any(isinstance(x, ast.Try) for x in b.body):
                    for i, e in enumerate(b.iter.elts):
                        loop = copy.deepcopy(b)
                        loop.iter = ast.Tuple(elts=[copy.deepcopy(e)], ctx=ast.Load())
                        reset = ast.parse('out = []').body[0]
                        emit(st, k, f'_bad{i:02d}', [reset, loop], ast.Name(id='out', ctx=ast.Load()))
                elif isinstance(b, ast.Try) and k > 0:
                    reset = ast.parse('out = []').body[0]
                    emit(st, k, '_try', [reset, copy.deepcopy(b)], ast.Name(id='out', ctx=ast.Load()))
        tree.body.extend(extra)
        ast.fix_missing_locations(tree)
        with open(os.path.join(dst_root, 'bridge_env', f), 'w', encoding='utf-8') as fh:
            fh.write(ast.unparse(tree))


def run(names=(), verbose=False):
    import shutil
    import tempfile
    import warnings
    warnings.simplefilter('ignore', SyntaxWarning)
    tmp = tempfile.mkdtemp(prefix='foldcorpus_')
    try:
        root = os.path.join(tmp, 'c')
        explode(CORPUS, root)
        return _run(Repo(root), names, verbose)
    finally:
        shutil.rmtree(tmp, ignore_errors=True)


def _run(repo, names=(), verbose=False):
    results = []
    for full, mi in sorted(repo.modules.items()):
        short = full.split('.')[-1]
        if short == 'bridge_env' or not mi.functions:
            continue
        for fname in sorted(mi.functions):
            if not fname.startswith('t_') or (names and not any(n in f'{short}.{fname}' for n in names)):
                continue
            try:
                py = _cpython(short, mi.path)        # a fresh module per function: module- and class-level state does not leak between them
                want = ('value', plain(getattr(py, fname)()))
            except BaseException as e:      # noqa: BLE001 - the corpus function's own outcome
                want = ('raise', type(e).__name__)
            box = {}

            def work():
                fo = Folder(repo, max_steps=400000, allow_loops=True)
                try:
                    box['got'] = ('value', plain(fo.call_function(full, fname)))
                except FoldRaise as e:
                    box['got'] = ('raise', e.kind.split('.')[-1])
                    box['why'] = str(e)[:160]
                except (Unsupported, AnalysisError) as e:
                    box['got'] = ('unsupported', str(e)[:200])
                except RecursionError:
                    box['got'] = ('unsupported', 'recursion limit of the analyser')
                except Exception as e:      # noqa: BLE001 - an internal error of the folder is a defect of the model too
                    box['got'] = ('internal', f'{type(e).__name__}: {e}'[:300])
            t = threading.Thread(target=work)
            t.start()
            t.join(120)
            got = box.get('got', ('internal', 'timeout'))
            if got[0] == 'unsupported':
                status = 'unsupported'
            elif got[0] == 'internal':
                status = 'crash'        # sa.check turns any crash of the analyser into ANALYSIS-ERROR (exit 2): no verdict, but noise
            elif got[:2] == want:
                status = 'agree'
            else:
                status = 'MISMATCH'
            results.append((f'{short}.{fname}', status, want, got + ((box['why'],) if status == 'MISMATCH' and 'why' in box else ())))
    return results


def first_difference(a, b, path='result'):
    if type(a) is not type(b):
        return f'{path}: CPython {a!r}  vs  fold {b!r}'
    if isinstance(a, (list, tuple)):
        for i, (x, y) in enumerate(zip(a, b)):
            if x != y:
                return first_difference(x, y, f'{path}[{i}]')
        if len(a) != len(b):
            return f'{path}: length {len(a)} vs {len(b)}'
    return f'{path}: CPython {a!r}  vs  fold {b!r}'


def main(argv):
    verbose = '-v' in argv
    names = [a for a in argv if not a.startswith('-')]
    res = run(names, verbose)
    bad = 0
    for name, status, want, got in res:
        if status == 'MISMATCH':
            bad += 1
            print(f'MISMATCH    {name}: {first_difference(want, got)[:600]}' + (f'   [{got[-1]}]' if got[0] in ('internal', 'raise') else ''))
        elif status in ('unsupported', 'crash'):
            print(f'{status:11s} {name}: {got[1]}')
        elif verbose:
            print(f'agree       {name}')
    n = len(res)
    print(f'{n} corpus functions: {sum(s == "agree" for _, s, _, _ in res)} agree, {sum(s == "unsupported" for _, s, _, _ in res)} unsupported, {sum(s == "crash" for _, s, _, _ in res)} crash (exit 2 in a check), {bad} MISMATCH')
    return 1 if bad else 0


if __name__ == '__main__':
    sys.exit(main(sys.argv[1:]))
