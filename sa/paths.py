"""A1 - path-sensitive effect summaries (no solver).

For a loop-free method (helpers inlined through the resolved class hierarchy, bounded depth) all
syntactic paths are enumerated.  Along a path an environment maps locals and `self.<attr>` to the
expression that reaches them *on that path* (forward substitution), and the ordered list of events
is collected:

  cond      (test, polarity)            branch taken
  assign    self.<attr> = value
  store     base[k1][k2].. = value      (also slice stores)
  aug       self.<attr> op= value  /  base[k..] op= value
  call      receiver.method(args)       every call statement / mutator call (receiver text, args)
  loop      a simple `for _ in range(n): x = f(x)` summarised as  x = __repeat__(n, f, x)
  end       return value | raise | fall

Every read inside an event is already replaced by its reaching expression.  Infeasible paths are
kept (a rule that holds on a superset of the feasible paths holds on the feasible ones)."""
from __future__ import annotations

import ast
import copy
from typing import Dict, List, Optional, Tuple

from .index import AnalysisError, ClassInfo, Repo, clone

MAX_PATHS = 4000
MAX_DEPTH = 5
LOOP_BOUND = 5


class Ev:
    def __init__(self, kind: str, node: ast.AST, **kw):
        self.kind, self.node = kind, node
        self.__dict__.update(kw)

    def __repr__(self):
        d = {k: (ast.unparse(v) if isinstance(v, ast.AST) else v) for k, v in self.__dict__.items()
             if k not in ('node', 'kind', 'origin')}
        return f'<{self.kind} {d}>'


class Path:
    def __init__(self):
        self.events: List[Ev] = []
        self.env: Dict[str, ast.expr] = {}
        self.end: Optional[Tuple[str, Optional[ast.expr], ast.AST]] = None
        self.truncated = False      # a loop on this path would need more than LOOP_BOUND iterations

    def fork(self) -> 'Path':
        p = Path()
        p.truncated = self.truncated
        p.events = list(self.events)
        p.env = dict(self.env)
        p.end = self.end
        return p

    # convenience -----------------------------------------------------------
    def conds(self):
        return [e for e in self.events if e.kind == 'cond']

    def effects(self):
        return [e for e in self.events if e.kind in ('assign', 'store', 'aug', 'call', 'loop')]

    def writes(self):
        """Effects that change state reachable from self / parameters (pure calls excluded by caller)."""
        return [e for e in self.events if e.kind in ('assign', 'store', 'aug', 'loop') or
                (e.kind == 'call' and e.mutator)]

    def describe(self) -> str:
        out = []
        for e in self.events:
            if e.kind == 'cond':
                out.append(('' if e.polarity else 'not ') + '(' + ast.unparse(e.test) + ')')
        end = self.end[0] if self.end else 'fall'
        if self.end and self.end[1] is not None:
            end += ' ' + ast.unparse(self.end[1])
        return ' & '.join(out) + ' => ' + end


MUTATORS = {'append', 'add', 'remove', 'pop', 'clear', 'put', 'set', 'update', 'extend', 'insert', 'discard',
            'record', 'write', 'sendall', 'close', 'sort', 'reverse', 'popitem', 'setdefault', 'put_nowait',
            'send_message', 'send', 'start', 'join', 'wait', 'acquire', 'release', 'open', 'shuffle'}

PURE_NAMES = {'len', 'str', 'int', 'tuple', 'list', 'set', 'sorted', 'isinstance', 'abs', 'min', 'max', 'range',
              'enumerate', 'zip', 'map', 'all', 'any', 'bool', 'dict', 'repr', 'Exception', 'ValueError'}


class _Subst(ast.NodeTransformer):
    def __init__(self, env):
        self.env = env

    def visit_Name(self, n):
        if isinstance(n.ctx, ast.Load) and n.id in self.env:
            return clone(self.env[n.id])
        return n

    def visit_Attribute(self, n):
        if isinstance(n.ctx, ast.Load):
            k = attr_key(n)
            if k is not None and k in self.env:
                return clone(self.env[k])
        n.value = self.visit(n.value)
        return n

    def visit_Lambda(self, n):
        return n

    def visit_ListComp(self, n):
        return self._comp(n)

    def visit_SetComp(self, n):
        return self._comp(n)

    def visit_DictComp(self, n):
        return self._comp(n)

    def visit_GeneratorExp(self, n):
        return self._comp(n)

    def _comp(self, n):
        bound = set()
        for g in n.generators:
            for t in ast.walk(g.target):
                if isinstance(t, ast.Name):
                    bound.add(t.id)
        inner = _Subst({k: v for k, v in self.env.items() if k not in bound})
        for f in n._fields:
            v = getattr(n, f)
            if isinstance(v, list):
                setattr(n, f, [inner.visit(x) if isinstance(x, ast.AST) else x for x in v])
            elif isinstance(v, ast.AST):
                setattr(n, f, inner.visit(v))
        return n

    def visit_comprehension(self, n):
        n.iter = self.visit(n.iter)
        n.ifs = [self.visit(i) for i in n.ifs]
        return n


def attr_key(n: ast.AST) -> Optional[str]:
    """'self.a' for Attribute(Name('self'),'a'); None otherwise."""
    if isinstance(n, ast.Attribute) and isinstance(n.value, ast.Name) and n.value.id == 'self':
        return f'self.{n.attr}'
    return None


def subst(e: ast.AST, env) -> ast.AST:
    return _Subst(env).visit(clone(e))


def is_super_call(e: ast.AST) -> bool:
    return isinstance(e, ast.Call) and isinstance(e.func, ast.Name) and e.func.id == 'super' and not e.args


class Summarizer:
    """Enumerates paths of `cls.meth` with the dynamic class `dyn` (for self.<m>() resolution)."""

    def __init__(self, repo: Repo, rule: str = 'paths'):
        self.repo, self.rule = repo, rule

    def paths(self, cls_name: str, meth: str, dyn: Optional[str] = None, allow_truncated: bool = False) -> List[Path]:
        dyn_ci = self.repo.cls(dyn or cls_name, self.rule)
        ci, fn = self.repo.method(cls_name, meth, self.rule)
        start = Path()
        out = self._body(fn.body, [start], ci, dyn_ci, 0, fn)
        for p in out:
            if p.end is None:
                p.end = ('fall', None, fn)
        self._truncation(out, allow_truncated, f'{cls_name}.{meth}')
        return out

    def _truncation(self, out, allow, what):
        if allow:
            return
        bad = [p for p in out if p.truncated]
        if bad:
            raise AnalysisError(self.rule, what, f'`{ast.unparse(bad[0].end[2])[:50]}` may run more than {LOOP_BOUND} times: '
                                                 'outside the bounded-loop subset of the path summariser')

    def function_paths(self, module: str, name: str, allow_truncated: bool = False) -> List[Path]:
        m, fn = self.repo.function(module, name, self.rule)
        out = self._body(fn.body, [Path()], None, None, 0, fn, mod=m)
        for p in out:
            if p.end is None:
                p.end = ('fall', None, fn)
        self._truncation(out, allow_truncated, f'{module}.{name}')
        return out

    # ------------------------------------------------------------------------
    def _body(self, body, paths: List[Path], ci, dyn, depth, fn, mod=None) -> List[Path]:
        for st in body:
            live = [p for p in paths if p.end is None]
            done = [p for p in paths if p.end is not None]
            if not live:
                return done
            new: List[Path] = []
            for p in live:
                new += self._stmt(st, p, ci, dyn, depth, fn, mod)
            paths = done + new
            if len(paths) > MAX_PATHS:
                raise AnalysisError(self.rule, getattr(fn, 'name', '?'), 'path explosion')
        return paths

    def _stmt(self, st, p: Path, ci, dyn, depth, fn, mod) -> List[Path]:
        S = lambda e: subst(e, p.env)  # noqa: E731
        if isinstance(st, ast.Expr):
            if isinstance(st.value, ast.Constant):
                return [p]
            if isinstance(st.value, ast.Call):
                call = st.value
                outs = []
                # arguments that are themselves multi-statement self-calls are evaluated first
                argexp = ast.Tuple(list(call.args) + [k.value for k in call.keywords], ast.Load())
                for q, tup in self._expand_calls(argexp, st, p, ci, dyn, depth):
                    if q.end is not None:
                        outs.append(q)
                        continue
                    n_pos = len(call.args)
                    call2 = ast.Call(call.func, list(tup.elts[:n_pos]), [ast.keyword(k.arg, v) for k, v in zip(call.keywords, tup.elts[n_pos:])])
                    ast.copy_location(call2, call)
                    outs += self._call_stmt(call2, st, q, ci, dyn, depth, fn, mod)
                return outs
            return [p]
        if isinstance(st, ast.Pass):
            return [p]
        if isinstance(st, ast.Assert):
            p.events.append(Ev('assert', st, test=S(st.test)))
            return [p]
        if isinstance(st, ast.Return):
            outs = []
            for q, v0 in self._expand_args(st.value, st, p, ci, dyn, depth):
                if q.end is not None:
                    outs.append(q)
                    continue
                val = subst(v0, q.env) if v0 is not None else None
                val = self._inline_expr(val, q, ci, dyn, depth) if val is not None else None
                q.end = ('return', val, st)
                outs.append(q)
            return outs
        if isinstance(st, ast.Raise):
            p.end = ('raise', S(st.exc) if st.exc is not None else None, st)
            return [p]
        if isinstance(st, ast.If):
            test = self._inline_expr(S(st.test), p, ci, dyn, depth)
            a, b = p, p.fork()
            a.events.append(Ev('cond', st, test=test, polarity=True))
            b.events.append(Ev('cond', st, test=test, polarity=False))
            return self._body(st.body, [a], ci, dyn, depth, fn, mod) + self._body(st.orelse, [b], ci, dyn, depth, fn, mod)
        if isinstance(st, ast.Assign):
            outs = []
            for q, v0 in self._expand_args(st.value, st, p, ci, dyn, depth):
                if q.end is not None:
                    outs.append(q)
                    continue
                val = self._inline_expr(subst(v0, q.env), q, ci, dyn, depth)
                self._record_calls_in(val, st, q)
                for t in st.targets:
                    self._assign(t, val, st, q)
                outs.append(q)
            return outs
        if isinstance(st, ast.AnnAssign):
            if st.value is not None:
                val = self._inline_expr(S(st.value), p, ci, dyn, depth)
                self._record_calls_in(val, st, p)
                self._assign(st.target, val, st, p)
            return [p]
        if isinstance(st, ast.AugAssign):
            val = S(st.value)
            t = st.target
            if isinstance(t, ast.Name):
                cur = p.env.get(t.id, ast.Name(t.id, ast.Load()))
                p.env[t.id] = ast.BinOp(clone(cur), st.op, val)
                return [p]
            k = attr_key(t)
            if k is not None:
                cur = p.env.get(k, _load(t))
                newv = ast.BinOp(clone(cur), st.op, val)
                p.env[k] = newv
                p.events.append(Ev('aug', st, target=k, keys=[], op=type(st.op).__name__, value=val, result=newv))
                return [p]
            if isinstance(t, ast.Subscript):
                base, keys = self._split_sub(t, p)
                p.events.append(Ev('aug', st, target=base, keys=keys, op=type(st.op).__name__, value=val, result=None))
                return [p]
            raise AnalysisError(self.rule, fn.name, f'unsupported augmented target {ast.unparse(t)}')
        if isinstance(st, ast.For):
            return self._for(st, p, ci, dyn, depth, fn, mod)
        if isinstance(st, ast.With):
            for it in st.items:
                ce = S(it.context_expr)
                p.events.append(Ev('call', st, recv='', method='__with__', args=[ce], mutator=True, text=ast.unparse(ce)))
                if it.optional_vars is not None and isinstance(it.optional_vars, ast.Name):
                    p.env[it.optional_vars.id] = ce
            return self._body(st.body, [p], ci, dyn, depth, fn, mod)
        if isinstance(st, ast.Try):
            return self._try(st, p, ci, dyn, depth, fn, mod)
        if isinstance(st, ast.While):
            return self._while(st, p, ci, dyn, depth, fn, mod)
        if isinstance(st, (ast.Import, ast.ImportFrom, ast.Global, ast.Nonlocal)):
            return [p]
        if isinstance(st, ast.Delete):
            for t in st.targets:
                if isinstance(t, ast.Subscript):
                    base, keys = self._split_sub(t, p)
                    p.events.append(Ev('store', st, target=base, keys=keys, value=None, delete=True, slice=None))
            return [p]
        if isinstance(st, (ast.Continue, ast.Break)):
            p.end = (type(st).__name__.lower(), None, st)
            return [p]
        raise AnalysisError(self.rule, fn.name, f'unsupported statement {type(st).__name__}')

    # -- try / except ---------------------------------------------------------------------------------------------------
    @staticmethod
    def _raise_test(s: ast.stmt, handler_types) -> Optional[ast.AST]:
        """For the membership idioms the condition under which statement `s` raises into a handler of these types, as an
        expression (`a not in R`); None when the statement is not one of the idioms."""
        call = s.value if isinstance(s, ast.Expr) else (s.value if isinstance(s, (ast.Assign, ast.AnnAssign)) else None)
        catches = lambda *names: (not handler_types) or bool(set(names) & handler_types) or bool({'Exception', 'BaseException', 'LookupError'} & handler_types)  # noqa: E731
        if isinstance(call, ast.Call) and isinstance(call.func, ast.Attribute) and call.func.attr == 'remove' and len(call.args) == 1 and catches('KeyError', 'ValueError'):
            return ast.Compare(clone(call.args[0]), [ast.NotIn()], [clone(call.func.value)])
        if isinstance(call, ast.Subscript) and not isinstance(call.slice, ast.Slice) and catches('KeyError', 'IndexError'):
            return ast.Compare(clone(call.slice), [ast.NotIn()], [clone(call.value)])
        return None

    def _try(self, st: ast.Try, p: Path, ci, dyn, depth, fn, mod) -> List[Path]:
        if st.finalbody or any(isinstance(x, (ast.Raise, ast.Try)) for b in st.body for x in ast.walk(b)):
            raise AnalysisError(self.rule, fn.name, 'try with finally / raise / nested try inside its body is outside the subset of the path summariser')
        out: List[Path] = []
        types = []
        for h in st.handlers:
            t = h.type
            names = set()
            if t is None:
                names = set()
            else:
                for n in ([t] if not isinstance(t, ast.Tuple) else t.elts):
                    names.add(ast.unparse(n).split('.')[-1])
            types.append(names)
        all_types = set().union(*types) if all(types) else set()
        # (a) some statement of the body raises into a handler
        for i, s in enumerate(st.body):
            may = any(isinstance(x, (ast.Call, ast.Subscript)) for x in ast.walk(s))
            if not may:
                continue
            for h, names in zip(st.handlers, types):
                test = self._raise_test(s, names)
                q = p.fork()
                pre = self._body(st.body[:i], [q], ci, dyn, depth, fn, mod)
                for q2 in pre:
                    if q2.end is not None:
                        continue
                    # normal completion of the idiom statements before i
                    cond = subst(test, q2.env) if test is not None else ast.Name(f'__raises_line_{getattr(s, "lineno", 0)}__', ast.Load())
                    q2.events.append(Ev('cond', s, test=cond, polarity=True))
                    if h.name:
                        q2.env[h.name] = ast.Name('__exception__', ast.Load())
                    out += self._body(h.body, [q2], ci, dyn, depth, fn, mod)
        # (b) nothing raises
        norm = [p]
        for s in st.body:
            nxt = []
            for q in norm:
                if q.end is not None:
                    nxt.append(q)
                    continue
                test = self._raise_test(s, all_types)
                if test is not None:
                    q.events.append(Ev('cond', s, test=subst(test, q.env), polarity=False))
                nxt += self._stmt(s, q, ci, dyn, depth, fn, mod)
            norm = nxt
        norm = self._body(st.orelse, norm, ci, dyn, depth, fn, mod) if st.orelse else norm
        return out + norm

    def _assign(self, t, val, st, p: Path):
        if isinstance(t, ast.Name):
            p.env[t.id] = val
            return
        if isinstance(t, (ast.Tuple, ast.List)):
            if isinstance(val, (ast.Tuple, ast.List)) and len(val.elts) == len(t.elts):
                for tt, vv in zip(t.elts, val.elts):
                    self._assign(tt, vv, st, p)
            else:
                for i, tt in enumerate(t.elts):
                    self._assign(tt, ast.Subscript(clone(val), ast.Constant(i), ast.Load()), st, p)
            return
        k = attr_key(t)
        if k is not None:
            p.env[k] = val
            p.events.append(Ev('assign', st, target=k, value=val))
            return
        if isinstance(t, ast.Subscript):
            base, keys = self._split_sub(t, p)
            sl = t.slice if isinstance(t.slice, ast.Slice) else None
            p.events.append(Ev('store', st, target=base, keys=keys, value=val, delete=False,
                               slice=subst(sl, p.env) if sl is not None else None))
            return
        if isinstance(t, ast.Attribute):
            tgt = ast.unparse(subst(t.value, p.env)) + '.' + t.attr
            p.events.append(Ev('assign', st, target=tgt, value=val))
            return
        raise AnalysisError(self.rule, '?', f'unsupported assignment target {ast.unparse(t)}')

    def _split_sub(self, t: ast.Subscript, p: Path):
        keys = []
        cur = t
        while isinstance(cur, ast.Subscript):
            keys.insert(0, subst(cur.slice, p.env))
            cur = cur.value
        if attr_key(cur) is not None:
            base = attr_key(cur)
        elif isinstance(cur, ast.Name) and cur.id in p.env and not isinstance(p.env[cur.id], (ast.Name, ast.Attribute, ast.Subscript)):
            base = cur.id           # a local container built here (dict/list literal, call result): not an alias
        else:
            # a local alias of a sub-object of self (x = self.a[k1]; x[k2] = v  is a store to self.a[k1][k2])
            sub = subst(cur, p.env)
            pre = []
            while isinstance(sub, ast.Subscript):
                pre.insert(0, sub.slice)
                sub = sub.value
            if attr_key(sub) is not None and pre:
                base = attr_key(sub)
                keys = pre + keys
            else:
                base = ast.unparse(subst(cur, p.env))
        return base, keys

    def _while(self, st: ast.While, p: Path, ci, dyn, depth, fn, mod):
        """Bounded unrolling: the paths that leave the loop after 0..LOOP_BOUND iterations, each guarded by the loop test as it
        evaluates in that iteration.  The path that would need more iterations ends in ('bound', ...): rules that evaluate guards
        against concrete states reject it when it is consistent with a state (analysis error), rules over all syntactic paths do
        not accept summaries that contain it (Summarizer.paths(..., allow_truncated=False))."""
        done: List[Path] = []
        live = [p]
        for i in range(LOOP_BOUND + 1):
            nxt: List[Path] = []
            for q in live:
                test = self._inline_expr(subst(st.test, q.env), q, ci, dyn, depth)
                const_true = isinstance(test, ast.Constant) and bool(test.value)
                stay = q
                if not const_true:
                    leave = q.fork()
                    leave.events.append(Ev('cond', st, test=test, polarity=False))
                    done += self._body(st.orelse, [leave], ci, dyn, depth, fn, mod) if st.orelse else [leave]
                    stay.events.append(Ev('cond', st, test=test, polarity=True))
                if i == LOOP_BOUND:
                    stay.end = ('bound', None, st)
                    stay.truncated = True
                    done.append(stay)
                    continue
                for r in self._body(st.body, [stay], ci, dyn, depth, fn, mod):
                    if r.end is None:
                        nxt.append(r)
                    elif r.end[0] == 'break':
                        r.end = None
                        done.append(r)
                    elif r.end[0] == 'continue':
                        r.end = None
                        nxt.append(r)
                    else:
                        done.append(r)
            live = nxt
            if len(done) + len(live) > MAX_PATHS:
                raise AnalysisError(self.rule, fn.name, f'path explosion in `{ast.unparse(st)[:40]}`')
            if not live:
                break
        return done

    def _for(self, st: ast.For, p: Path, ci, dyn, depth, fn, mod):
        # a loop over a short literal tuple / list of constants is unrolled
        lit = st.iter
        if isinstance(lit, ast.Name) and isinstance(p.env.get(lit.id), (ast.Tuple, ast.List)):
            lit = p.env[lit.id]
        if isinstance(lit, (ast.Tuple, ast.List)) and len(lit.elts) <= 12 and all(isinstance(x, ast.Constant) for x in lit.elts) \
                and isinstance(st.target, ast.Name) and not st.orelse \
                and not any(isinstance(x, (ast.Break, ast.Continue)) for b in st.body for x in ast.walk(b)):
            paths = [p]
            for c in lit.elts:
                nxt = []
                for q in paths:
                    if q.end is not None:
                        nxt.append(q)
                        continue
                    q.env[st.target.id] = c
                    nxt += self._body(st.body, [q], ci, dyn, depth, fn, mod)
                paths = nxt
            return paths
        # summarise `for _ in range(n): x = f(x)`
        it = subst(st.iter, p.env)
        if isinstance(it, ast.Call) and isinstance(it.func, ast.Name) and it.func.id == 'range' \
                and len(it.args) == 1 and len(st.body) == 1 and isinstance(st.body[0], ast.Assign) \
                and len(st.body[0].targets) == 1 and not st.orelse:
            t = st.body[0].targets[0]
            k = attr_key(t) or (t.id if isinstance(t, ast.Name) else None)
            loopvars = {n.id for n in ast.walk(st.target) if isinstance(n, ast.Name)}
            reads = {n.id for n in ast.walk(st.body[0].value) if isinstance(n, ast.Name)}
            if k is not None and not (loopvars & reads):
                cur = p.env.get(k, _load(t))
                step = ast.unparse(st.body[0].value)
                res = ast.Call(ast.Name('__repeat__', ast.Load()),
                               [it.args[0], ast.Constant(step), clone(cur)], [])
                p.env[k] = res
                p.events.append(Ev('loop', st, target=k, count=it.args[0], step=st.body[0].value, init=cur, value=res))
                return [p]
        raise AnalysisError(self.rule, fn.name, f'loop `{ast.unparse(st)[:50]}` is outside the subset of the path summariser')

    # -- calls ---------------------------------------------------------------
    def _resolve_self_call(self, call: ast.Call, ci, dyn):
        """(ClassInfo, FunctionDef) for self.m(...) / super().m(...) / cls.m(...), else None."""
        f = call.func
        if not isinstance(f, ast.Attribute) or ci is None:
            return None
        if isinstance(f.value, ast.Name) and f.value.id in ('self', 'cls'):
            for c in self.repo.mro(dyn):
                if f.attr in c.methods:
                    return c, c.methods[f.attr]
            return None
        if is_super_call(f.value):
            mro = self.repo.mro(dyn)
            if ci in mro:
                for c in mro[mro.index(ci) + 1:]:
                    if f.attr in c.methods:
                        return c, c.methods[f.attr]
            return None
        return None

    def _bind(self, callee_ci, callee: ast.FunctionDef, call: ast.Call, p: Path) -> Dict[str, ast.expr]:
        params = [a.arg for a in callee.args.args]
        kind = callee_ci.method_kind(callee.name)
        if kind in ('method', 'class', 'property') and params:
            params = params[1:]
        env: Dict[str, ast.expr] = {}
        defaults = dict(zip(reversed(params), reversed(callee.args.defaults)))
        for i, prm in enumerate(params):
            if i < len(call.args):
                env[prm] = call.args[i]
            else:
                kw = [k for k in call.keywords if k.arg == prm]
                if kw:
                    env[prm] = kw[0].value
                elif prm in defaults:
                    env[prm] = defaults[prm]
                else:
                    raise AnalysisError(self.rule, callee.name, f'cannot bind parameter {prm}')
        return env

    def _call_stmt(self, call: ast.Call, st, p: Path, ci, dyn, depth, fn, mod) -> List[Path]:
        call_s = subst(call, p.env)
        target = self._resolve_self_call(call, ci, dyn)
        if target is not None and depth < MAX_DEPTH and not _has_loop(target[1]):
            cci, cfn = target
            penv = self._bind(cci, cfn, call_s, p)
            # callee runs with its own locals but shares self.<attr> state
            sub = p.fork()
            saved_locals = {k: v for k, v in p.env.items() if not k.startswith('self.')}
            sub.env = {k: v for k, v in p.env.items() if k.startswith('self.')}
            sub.env.update(penv)
            sub.events.append(Ev('enter', st, callee=f'{cci.name}.{cfn.name}'))
            outs = self._body(cfn.body, [sub], cci, dyn, depth + 1, cfn, cci.module)
            res = []
            for o in outs:
                o.events.append(Ev('exit', st, callee=f'{cci.name}.{cfn.name}'))
                selfstate = {k: v for k, v in o.env.items() if k.startswith('self.')}
                o.env = dict(saved_locals)
                o.env.update(selfstate)
                if o.end is not None and o.end[0] in ('return', 'fall'):
                    o.end = None
                res.append(o)
            return res
        self._record_call(call_s, st, p)
        if target is not None:
            # the callee is not inlined (loops / depth): what it may write to self is unknown from here on
            for attr in sorted(self._written_attrs(target[0], target[1], dyn)):
                p.env['self.' + attr] = ast.Call(ast.Name('__opaque__', ast.Load()),
                                                 [ast.Constant(f'{target[0].name}.{target[1].name}'), ast.Constant(attr)], [])
        return [p]

    def _written_attrs(self, cci, cfn, dyn, seen=None) -> set:
        """self.<attr> names a method (with the self-methods it calls) may assign, augment, delete or mutate in place."""
        seen = seen if seen is not None else set()
        if id(cfn) in seen:
            return set()
        seen.add(id(cfn))
        out = set()
        for n in ast.walk(cfn):
            tgts = []
            if isinstance(n, ast.Assign):
                tgts = n.targets
            elif isinstance(n, (ast.AugAssign, ast.AnnAssign)):
                tgts = [n.target]
            elif isinstance(n, ast.Delete):
                tgts = n.targets
            elif isinstance(n, (ast.For, ast.comprehension)):
                tgts = [n.target]
            elif isinstance(n, ast.Call) and isinstance(n.func, ast.Attribute):
                if n.func.attr in MUTATORS:
                    tgts = [n.func.value]
                t2 = self._resolve_self_call(n, cci, dyn)
                if t2 is not None:
                    out |= self._written_attrs(t2[0], t2[1], dyn, seen)
            for t in tgts:
                for x in ast.walk(t):
                    if isinstance(x, ast.Attribute) and isinstance(x.value, ast.Name) and x.value.id == 'self':
                        out.add(x.attr)
        return out

    def _run_callee(self, cci, cfn, call_s, st, p: Path, dyn, depth):
        """Paths of the callee started from p; each result is (path, returned expression | None); a path that ends in raise
        keeps its end."""
        penv = self._bind(cci, cfn, call_s, p)
        sub = p.fork()
        saved_locals = {k: v for k, v in p.env.items() if not k.startswith('self.')}
        sub.env = {k: v for k, v in p.env.items() if k.startswith('self.')}
        sub.env.update(penv)
        sub.events.append(Ev('enter', st, callee=f'{cci.name}.{cfn.name}'))
        outs = self._body(cfn.body, [sub], cci, dyn, depth + 1, cfn, cci.module)
        res = []
        for o in outs:
            o.events.append(Ev('exit', st, callee=f'{cci.name}.{cfn.name}'))
            selfstate = {k: v for k, v in o.env.items() if k.startswith('self.')}
            o.env = dict(saved_locals)
            o.env.update(selfstate)
            val = None
            if o.end is None or o.end[0] == 'fall':
                o.end, val = None, ast.Constant(None)
            elif o.end[0] == 'return':
                val = o.end[1] if o.end[1] is not None else ast.Constant(None)
                o.end = None
            res.append((o, val))
        return res

    def _expand_args(self, e: ast.AST, st, p: Path, ci, dyn, depth) -> list:
        """Like _expand_calls, but a call at the top of `e` is kept as a call (rules recognise `return self.m(x)` shapes):
        only the calls nested in its arguments are evaluated."""
        if isinstance(e, ast.Call) and not self._effectful_callee(e, ci, dyn):
            argexp = ast.Tuple(list(e.args) + [k.value for k in e.keywords], ast.Load())
            out = []
            for q, tup in self._expand_calls(argexp, st, p, ci, dyn, depth):
                if q.end is not None:
                    out.append((q, None))
                    continue
                n_pos = len(e.args)
                e2 = ast.Call(e.func, list(tup.elts[:n_pos]), [ast.keyword(k.arg, v) for k, v in zip(e.keywords, tup.elts[n_pos:])])
                ast.copy_location(e2, e)
                out.append((q, e2))
            return out
        return self._expand_calls(e, st, p, ci, dyn, depth)

    def _effectful_callee(self, call: ast.Call, ci, dyn) -> bool:
        """`return self._helper(...)` where the helper does things (calls, writes to self) besides computing a value: its effects
        belong on the path, so the call is evaluated rather than kept as an expression."""
        tgt = self._resolve_self_call(call, ci, dyn) if ci is not None else None
        if tgt is None or _has_loop(tgt[1]):
            return False
        for st_ in tgt[1].body:
            if isinstance(st_, ast.Expr) and isinstance(st_.value, ast.Call):
                return True
            if isinstance(st_, (ast.Assign, ast.AugAssign, ast.AnnAssign)):
                t_ = st_.targets[0] if isinstance(st_, ast.Assign) else st_.target
                while isinstance(t_, ast.Subscript):
                    t_ = t_.value
                if isinstance(t_, ast.Attribute) and isinstance(t_.value, ast.Name) and t_.value.id == 'self':
                    return True
        return False

    def _expand_calls(self, e: ast.AST, st, p: Path, ci, dyn, depth) -> list:
        """Evaluate the self-method calls with a multi-statement body that occur in expression `e` (innermost first, left to
        right), forking the path per callee path: [(path, expression with the calls replaced by what they return)].  A path on
        which a callee raises is returned ended, with expression None."""
        if e is None or ci is None or depth >= MAX_DEPTH:
            return [(p, e)]
        cands = []
        for n in ast.walk(e):
            if isinstance(n, ast.Call):
                tgt = self._resolve_self_call(n, ci, dyn)
                if tgt is None or _has_loop(tgt[1]):
                    continue
                body = [x for x in tgt[1].body if not (isinstance(x, ast.Expr) and isinstance(x.value, ast.Constant))]
                if len(body) == 1 and isinstance(body[0], ast.Return):
                    continue        # single-expression callee: handled by _inline_expr
                if tgt[0].method_kind(tgt[1].name) == 'property':
                    continue
                cands.append(n)
        if not cands:
            return [(p, e)]
        # innermost first: a candidate none of whose descendants is a candidate
        inner = [c for c in cands if not any(d is not c and d in cands for d in ast.walk(c))]
        target = inner[0]
        cci, cfn = self._resolve_self_call(target, ci, dyn)
        out = []
        for q, val in self._run_callee(cci, cfn, subst(target, p.env), st, p, dyn, depth):
            if q.end is not None:
                out.append((q, None))
                continue

            out += self._expand_rest(e, target, val, st, q, ci, dyn, depth)
        return out

    def _expand_rest(self, e, target, val, st, q, ci, dyn, depth):
        """Replace `target` inside `e` by `val` (identity-based) and continue expanding."""
        class R(ast.NodeTransformer):
            def visit_Call(self, n):
                if n is target:
                    return val
                self.generic_visit(n)
                return n
        if e is target:
            e2 = val
        else:
            import copy as _copy
            memo = {id(target): target}        # keep the identity of the target through the copy
            e2 = R().visit(_copy.deepcopy(e, memo))
        return self._expand_calls(e2, st, q, ci, dyn, depth)

    def _record_call(self, call_s: ast.Call, st, p: Path):
        f = call_s.func
        if isinstance(f, ast.Attribute):
            recv = 'super()' if is_super_call(f.value) else ast.unparse(f.value)
            meth = f.attr
            if recv.split('.')[0] == 'logger':
                return
            p.events.append(Ev('call', st, recv=recv, method=meth, args=list(call_s.args),
                               kwargs={k.arg: k.value for k in call_s.keywords},
                               mutator=meth in MUTATORS or recv in ('self', 'super()'), text=ast.unparse(call_s)))
        elif isinstance(f, ast.Name):
            if f.id in PURE_NAMES or f.id == 'print':
                return
            p.events.append(Ev('call', st, recv='', method=f.id, args=list(call_s.args),
                               kwargs={k.arg: k.value for k in call_s.keywords}, mutator=False,
                               text=ast.unparse(call_s)))

    def _record_calls_in(self, val: ast.AST, st, p: Path):
        """Mutator calls nested in an assigned expression (e.g. x = q.get()) are events too."""
        for n in ast.walk(val):
            if isinstance(n, ast.Call) and isinstance(n.func, ast.Attribute) and n.func.attr in MUTATORS | {'get', 'recv', 'receive_message', 'accept'}:
                recv = 'super()' if is_super_call(n.func.value) else ast.unparse(n.func.value)
                p.events.append(Ev('call', st, recv=recv, method=n.func.attr, args=list(n.args),
                                   kwargs={k.arg: k.value for k in n.keywords}, mutator=True, text=ast.unparse(n)))

    def _inline_expr(self, e: ast.AST, p: Path, ci, dyn, depth):
        """Replace self.m(...) calls whose callee is a single `return <expr>` by that expression."""
        if e is None or ci is None:
            return e
        summ = self

        class T(ast.NodeTransformer):
            def visit_Call(self, n):
                self.generic_visit(n)
                tgt = summ._resolve_self_call(n, ci, dyn)
                if tgt is None or depth >= MAX_DEPTH:
                    return n
                cci, cfn = tgt
                body = [s for s in cfn.body if not (isinstance(s, ast.Expr) and isinstance(s.value, ast.Constant))]
                if len(body) == 1 and isinstance(body[0], ast.Return) and body[0].value is not None:
                    # a thin wrapper around a module-level function stays a call to the wrapper: rules know the method, not the helper
                    if any(isinstance(x, ast.Call) and isinstance(x.func, ast.Name) and x.func.id in cci.module.functions for x in ast.walk(body[0].value)):
                        return n
                    penv = summ._bind(cci, cfn, n, p)
                    env2 = {k: v for k, v in p.env.items() if k.startswith('self.')}
                    env2.update(penv)
                    return subst(body[0].value, env2)
                return n
        return T().visit(e)


def _counting_while(n: ast.While) -> bool:
    """`while <comparison of names / attributes / constants>:` whose body reassigns one of the compared names: a counting loop, which
    bounded unrolling can follow (anything else - `while True`, tests that call - stays an opaque callee)."""
    if any(isinstance(x, (ast.Call, ast.Await, ast.NamedExpr)) for x in ast.walk(n.test)) or isinstance(n.test, ast.Constant):
        return False
    tested = {ast.unparse(x) for x in ast.walk(n.test) if isinstance(x, (ast.Name, ast.Attribute))}
    for b in n.body:
        for x in ast.walk(b):
            # a counter: `k -= 1`, `k += 1`, `k = k - 1` on a compared name (not `c = recv()`: that loop has no static bound)
            if isinstance(x, ast.AugAssign) and isinstance(x.op, (ast.Add, ast.Sub)) and ast.unparse(x.target) in tested:
                return True
            if isinstance(x, ast.Assign) and len(x.targets) == 1 and ast.unparse(x.targets[0]) in tested and isinstance(x.value, ast.BinOp) \
                    and isinstance(x.value.op, (ast.Add, ast.Sub)) and ast.unparse(x.targets[0]) in {ast.unparse(y) for y in ast.walk(x.value)}:
                return True
    return False


def _has_loop(fn: ast.FunctionDef) -> bool:
    for n in ast.walk(fn):
        if isinstance(n, ast.Try):
            return True
        if isinstance(n, ast.While) and not _counting_while(n):
            return True
        if isinstance(n, ast.For):
            # simple repeat loops are summarised
            if isinstance(n.iter, (ast.Tuple, ast.List)) and all(isinstance(x, ast.Constant) for x in n.iter.elts):
                continue
            if not (isinstance(n.iter, ast.Call) and isinstance(n.iter.func, ast.Name) and n.iter.func.id == 'range'
                    and len(n.body) == 1 and isinstance(n.body[0], ast.Assign)):
                return True
    return False


def _load(t: ast.AST) -> ast.AST:
    t2 = clone(t)
    for n in ast.walk(t2):
        if hasattr(n, 'ctx'):
            n.ctx = ast.Load()
    return t2
