"""Static analysis of yotaroy/bridge_env: every verdict is computed from the
source text under the analysed tree (ast, re._parser, the shipped JSON schemas).
The subject package is never imported and none of its functions is called."""
