"""Repro helper (documentation only, NOT a registered check): runs a real
session of the bundled server with four bundled clients over localhost.
Used to confirm findings F2 / F7 against the real code.

usage: /venv/bin/python session_harness.py [--stall] [--illegal-on N] [--boards K]
"""
import argparse
import json
import pathlib
import random
import socket
import sys
import tempfile
import threading
import time

import os
sys.path.insert(0, os.environ.get('REPRO_REPO', '/repo'))
from bridge_env import Bid, Hands, Player, Vul  # noqa: E402
from bridge_env.data_handler.abstract_classes import BoardSetting  # noqa: E402
from bridge_env.network_bridge import server as server_mod  # noqa: E402
from bridge_env.network_bridge.bidding_system import BiddingSystem  # noqa: E402
from bridge_env.network_bridge.client import Client  # noqa: E402
from bridge_env.network_bridge.playing_system import RandomPlay  # noqa: E402

_real_sleep = time.sleep


def free_port():
    s = socket.socket()
    s.bind(('localhost', 0))
    p = s.getsockname()[1]
    s.close()
    return p


class Scripted(BiddingSystem):
    """Opens 1C when possible; on board `illegal_on` North redoubles at once."""

    def __init__(self, player, illegal_on):
        self.player, self.illegal_on, self.board = player, illegal_on, 0

    def bid(self, hand, env):
        if len(env.bid_history) < 4 and not any(env.players_bid_history[self.player]):
            pass
        if self.illegal_on and self.player is env.dealer and \
                len(env.bid_history) == 0:
            self.board += 1
            if self.board == self.illegal_on:
                return Bid.XX
        if env.available_bid[0] == 1:
            return Bid.C1
        return Bid.Pass


def main():
    ap = argparse.ArgumentParser()
    ap.add_argument('--stall', action='store_true',
                    help='delay the main thread 0.5 s right after it releases a barrier (F7 window)')
    ap.add_argument('--illegal-on', type=int, default=0)
    ap.add_argument('--boards', type=int, default=2)
    ap.add_argument('--timeout', type=float, default=60)
    args = ap.parse_args()

    random.seed(1)
    time.sleep = lambda s: _real_sleep(0.001)
    if args.stall:
        orig = server_mod.logger.debug

        def debug(msg, *a, **k):
            if msg == 'set' and threading.current_thread() is main_thread[0]:
                _real_sleep(0.5)
            return orig(msg, *a, **k)
        server_mod.logger.debug = debug
    main_thread = [None]

    settings = [BoardSetting(hands=Hands.generate_random_hands(), dealer=Player.N,
                             vul=Vul.NONE, board_id=f'b{i}') for i in range(args.boards)]
    out = pathlib.Path(tempfile.mkdtemp()) / 'out.json'
    port = free_port()
    result = {}

    def run_server():
        main_thread[0] = threading.current_thread()
        try:
            with server_mod.Server('localhost', port, out, settings) as srv:
                srv.run()
            result['server'] = 'completed'
        except BaseException as e:  # noqa
            result['server'] = f'raised {type(e).__name__}: {e}'

    st = threading.Thread(target=run_server, daemon=True)
    st.start()
    _real_sleep(0.3)

    def run_client(p):
        try:
            with Client(p, 'NS' if p in (Player.N, Player.S) else 'EW',
                        Scripted(p, args.illegal_on), RandomPlay(), 'localhost', port) as c:
                c.run()
            result[p.name] = 'completed'
        except BaseException as e:  # noqa
            result[p.name] = f'raised {type(e).__name__}'

    cts = []
    for p in Player:
        t = threading.Thread(target=run_client, args=(p,), daemon=True)
        t.start()
        cts.append(t)
        _real_sleep(0.1)
    st.join(args.timeout)
    print('server thread alive (=hung):', st.is_alive())
    print('results:', result)
    text = out.read_text() if out.exists() else ''
    try:
        doc = json.loads(text)
        print('log parses; boards:', [b['board_id'] for b in doc['logs']])
    except Exception as e:  # noqa
        print('log does NOT parse:', type(e).__name__, repr(text[-40:]))
    sys.stdout.flush()
    import os
    os._exit(0)


if __name__ == '__main__':
    main()
