"""Repro of findings F1, F3-F6 (documentation only, NOT a registered check).
usage: REPRO_REPO=<tree> /venv/bin/python repro.py   -> prints DEFECT/ok per finding."""
import io
import json
import os
import socket
import sys
import threading
import datetime

sys.path.insert(0, os.environ.get('REPRO_REPO', '/repo'))
from bridge_env import Bid, Card, Contract, Hands, Pair, Player, Suit, Vul, TrickHistory  # noqa
from bridge_env.data_handler.json_handler.parser import JsonParser  # noqa
from bridge_env.data_handler.json_handler.writer import JsonLogWriter  # noqa
from bridge_env.data_handler.pbn_handler.parser import PbnParser  # noqa
from bridge_env.data_handler.pbn_handler.writer import PbnWriter, Scoring  # noqa
from bridge_env.network_bridge.socket_interface import MessageInterface  # noqa
from bridge_env.playing_phase import PlayingHistory  # noqa
import bridge_env  # noqa

print('tree:', os.path.dirname(os.path.dirname(bridge_env.__file__)))

# F1: EOF in the middle of a message
a, b = socket.socketpair()
a.sendall(b'hello\r\nwor')
a.close()
mi = MessageInterface(b)
assert mi.receive_message() == 'hello'
res = {}


def second():
    try:
        mi.receive_message()
        res['r'] = 'returned'
    except Exception as e:  # noqa
        res['r'] = 'raised ' + type(e).__name__


t = threading.Thread(target=second, daemon=True)
t.start()
t.join(2)
print('F1', 'DEFECT: receive_message still spinning after 2 s' if t.is_alive() else 'ok: ' + res['r'])

# F3/F4: log read back + schema
import random
random.seed(3)
deal = Hands.generate_random_hands()
c = Contract(Bid.C1, vul=Vul.NS, declarer=Player.W)
ph = PlayingHistory(c)
ph.record(1, TrickHistory(Player.N, (Card(2, Suit.C), Card(3, Suit.C), Card(4, Suit.C), Card(5, Suit.C))))
buf = io.StringIO()
with JsonLogWriter(buf) as w:
    w.write('id', 'w', 'n', 'e', 's', Player.N, deal, Scoring.IMP, [Bid.C1, Bid.Pass, Bid.Pass, Bid.Pass], c, ph, 7,
            {Pair.NS: -70, Pair.EW: 70})
log = JsonParser().parse_board_logs(io.StringIO(buf.getvalue()))[0]
bad = []
if log.play_history[0].leader is not Player.N:
    bad.append(f'leader={log.play_history[0].leader!r}')
if log.scores != {Pair.NS: -70, Pair.EW: 70}:
    bad.append(f'scores={log.scores!r}')
print('F3', 'DEFECT: ' + ', '.join(bad) if bad else 'ok')
schema = json.load(open(os.path.join(os.path.dirname(bridge_env.__file__), 'data_handler/json_handler/log_format.schema.json')))
st = schema['properties']['logs']['items']['properties']['score_type']['type']
doc = json.loads(buf.getvalue())
print('F4', 'DEFECT: schema says %s, writer emits %r' % (st, doc['logs'][0]['score_type'])
      if st != 'string' else 'ok')

# F5: blank-line layouts
game = '[Board "1"]\n[Dealer "N"]\n[Vulnerable "None"]\n[Deal "%s"]\n' % deal.to_pbn()
for name, text in [('leading blank', '\n' + game), ('two blanks', game + '\n\n' + game), ('trailing blanks', game + '\n\n')]:
    try:
        n = len(PbnParser().parse_board_settings(io.StringIO(text)))
        print('F5', name, 'ok: %d boards' % n)
    except Exception as e:  # noqa
        print('F5', name, 'DEFECT:', type(e).__name__, e)

# F6: two results
buf = io.StringIO()
w = PbnWriter(buf)
for i in (1, 2, 3):
    w.write_board_result('e', 's', datetime.date(2020, 1, 1), i, 'w', 'n', 'e', 's', Player.N, deal, Scoring.IMP, c, 7)
games = PbnParser().parse_all(io.StringIO(buf.getvalue()))
print('F6', 'ok: 3 games' if [g.get('Board') for g in games] == ['1', '2', '3'] else 'DEFECT: %d game(s) read back from 3 results' % len(games))

# F8: whitespace inside a quoted value
bs = PbnParser().parse_board_settings(io.StringIO('[Board "A  1"]\n[Dealer "N"]\n[Vulnerable "None"]\n[Deal "%s"]\n' % deal.to_pbn()))
print('F8', 'ok' if bs[0].board_id == 'A  1' else 'DEFECT: board id %r read back as %r' % ('A  1', bs[0].board_id))
os._exit(0)
