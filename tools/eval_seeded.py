#!/venv/bin/python
"""Confirms candidate seeded changes and runs the checks against them, on a scratch worktree.

For every candidate directory <src>/<Cxx>/<k>/ (patch.diff, demo.py, notes.md) or stored
/verif/seeded/<name>/ :
  1. clean scratch worktree of /repo HEAD (outside /repo and /verif), demo must exit 0;
  2. apply the patch; the pinned test suite must still pass; the demo must exit non-zero;
  3. run the property's quick check with --repo <worktree> (evidence to a temp dir): exit code and
     the VIOLATION / ANALYSIS-ERROR lines are recorded;
  4. revert; the worktree is removed at the end.
Nothing is ever applied to /repo itself.

usage: eval_seeded.py --src /tmp/wt_out [Cxx ...]      (candidates from sub-agents)
       eval_seeded.py --stored [name ...]              (re-run /verif/seeded/*)
"""
import argparse
import json
import os
import re
import shutil
import subprocess
import sys
import tempfile
from concurrent.futures import ThreadPoolExecutor

VERIF = os.path.dirname(os.path.dirname(os.path.abspath(__file__)))
PY = '/venv/bin/python'


def sh(cmd, cwd=None, timeout=600, env=None):
    e = dict(os.environ)
    e.update(env or {})
    try:
        p = subprocess.run(cmd, shell=True, cwd=cwd, capture_output=True, text=True, timeout=timeout, env=e)
        return p.returncode, p.stdout + p.stderr
    except subprocess.TimeoutExpired as ex:
        return 124, f'timeout after {timeout}s: {ex.stdout or ""}'


def evaluate(item, skip_tests=False, all_props=False):
    pid, name, pdir = item
    wt = tempfile.mkdtemp(prefix=f'seedwt_{name}_', dir='/tmp')
    os.rmdir(wt)
    res = {'name': name, 'property': pid, 'dir': pdir}
    try:
        rc, out = sh(f'git -C /repo worktree add --detach {wt} HEAD')
        if rc:
            res['error'] = 'worktree: ' + out[-200:]
            return res
        patch = os.path.join(pdir, 'patch.diff')
        demo = next((os.path.join(pdir, f) for f in ('demo.py', 'test_demo.py') if os.path.exists(os.path.join(pdir, f))), None)
        if demo:
            rc, out = sh(f'{PY} {demo}', cwd=wt, timeout=300, env={'PYTHONPATH': wt})
            res['demo_clean'] = rc
        rc, out = sh(f'git apply {patch}', cwd=wt)
        if rc:
            res['error'] = 'apply: ' + out[-300:]
            return res
        if not skip_tests:
            rc, out = sh(f'{PY} -m pytest -q -p no:cacheprovider --timeout=900 -x', cwd=wt, timeout=900, env={'PYTHONPATH': wt})
            m = re.search(r'(\d+) passed', out)
            res['tests'] = f'{m.group(1)} passed' if m and rc == 0 else f'rc={rc} ' + out[-200:].replace('\n', ' | ')
        if demo:
            rc, out = sh(f'{PY} {demo}', cwd=wt, timeout=300, env={'PYTHONPATH': wt})
            res['demo_seeded'] = rc
            res['demo_out'] = [l for l in out.splitlines() if l.strip()][-3:]
        props = [pid]
        if all_props:
            props = [f'C{i:02d}' for i in range(1, 21) if os.path.exists(os.path.join(VERIF, 'sa', 'rules', f'c{i:02d}.py'))]
        res['checks'] = {}
        for p in props:
            if not os.path.exists(os.path.join(VERIF, 'sa', 'rules', f'{p.lower()}.py')):
                res['checks'][p] = {'rc': None, 'lines': ['no check yet']}
                continue
            ev = tempfile.mkdtemp(prefix='seedev_')
            rc, out = sh(f'{PY} -m sa.check {p} --tier quick --repo {wt}', cwd=VERIF, env={'SA_EVIDENCE_DIR': ev}, timeout=600)
            shutil.rmtree(ev, ignore_errors=True)
            lines = [l for l in out.splitlines() if l.startswith(('VIOLATION', 'ANALYSIS-ERROR', '  reason', '  bridge_env'))][:6]
            res['checks'][p] = {'rc': rc, 'lines': lines}
        return res
    finally:
        sh(f'git -C /repo worktree remove --force {wt}')
        shutil.rmtree(wt, ignore_errors=True)


def main():
    ap = argparse.ArgumentParser()
    ap.add_argument('--src')
    ap.add_argument('--stored', action='store_true')
    ap.add_argument('--skip-tests', action='store_true')
    ap.add_argument('--all-props', action='store_true', help='run every registered check, not only the seeded property\'s')
    ap.add_argument('-j', type=int, default=8)
    ap.add_argument('--out')
    ap.add_argument('names', nargs='*')
    a = ap.parse_args()
    items = []
    if a.stored:
        root = os.path.join(VERIF, 'seeded')
        for n in sorted(os.listdir(root)):
            d = os.path.join(root, n)
            if os.path.isdir(d) and (not a.names or n in a.names or any(n.startswith(x) for x in a.names)):
                meta = json.load(open(os.path.join(d, 'meta.json')))
                items.append((meta['property'], n, d))
    else:
        for pid in sorted(os.listdir(a.src)):
            if not re.fullmatch(r'C\d\d', pid) or (a.names and pid not in a.names):
                continue
            for k in sorted(os.listdir(os.path.join(a.src, pid))):
                d = os.path.join(a.src, pid, k)
                if os.path.isdir(d) and os.path.exists(os.path.join(d, 'patch.diff')):
                    items.append((pid, f'{pid}-{k}', d))
    with ThreadPoolExecutor(max_workers=a.j) as ex:
        results = list(ex.map(lambda it: evaluate(it, a.skip_tests, a.all_props), items))
    for r in results:
        own = r.get('checks', {}).get(r['property'], {})
        det = {0: 'MISSED', 1: 'DETECTED', 2: 'ANALYSIS-ERROR', None: 'no-check'}.get(own.get('rc'), f'rc={own.get("rc")}')
        others = [p for p, c in r.get('checks', {}).items() if p != r['property'] and c['rc'] == 1]
        print(f"{r['name']:14s} tests={r.get('tests', '-'):12s} demo clean/seeded={r.get('demo_clean')}/{r.get('demo_seeded')}  "
              f"{det}{' also:' + ','.join(others) if others else ''}  {r.get('error', '')}")
        for l in own.get('lines', [])[:3]:
            print('      ' + l[:230])
    if a.out:
        json.dump(results, open(a.out, 'w'), indent=1)
    return 0


if __name__ == '__main__':
    sys.exit(main())
