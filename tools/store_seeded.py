#!/venv/bin/python
"""Copies confirmed candidates (eval_seeded.py --out JSON) into /verif/seeded/<name>/ with a meta.json.
A candidate is kept only if: the patch applied, the pinned suite passed with it, the demo exits 0 on the clean
tree and non-zero with the change."""
import json
import os
import shutil
import sys

VERIF = os.path.dirname(os.path.dirname(os.path.abspath(__file__)))


def main():
    res = json.load(open(sys.argv[1]))
    for r in res:
        ok = r.get('demo_clean') == 0 and r.get('demo_seeded') not in (0, None) and str(r.get('tests', '')).endswith('passed') and not r.get('error')
        if not ok:
            print('not kept:', r['name'], r.get('tests'), r.get('demo_clean'), r.get('demo_seeded'), r.get('error'))
            continue
        d = os.path.join(VERIF, 'seeded', r['name'])
        os.makedirs(d, exist_ok=True)
        for f in os.listdir(r['dir']):
            if f.endswith(('.diff', '.py', '.md')):
                shutil.copy(os.path.join(r['dir'], f), os.path.join(d, f))
        notes = open(os.path.join(r['dir'], 'notes.md')).read() if os.path.exists(os.path.join(r['dir'], 'notes.md')) else ''
        meta = {'property': r['property'],
                'origin': 'independent sub-agent given only the property text and a scratch worktree',
                'needs_to_manifest': notes.strip()[:1500],
                'confirmed': {'pinned_suite_with_change': r.get('tests'), 'demo_exit_clean_tree': r.get('demo_clean'), 'demo_exit_with_change': r.get('demo_seeded'),
                              'how': 'tools/eval_seeded.py on a scratch git worktree of /repo HEAD (removed afterwards): demo on the clean tree, git apply patch.diff, '
                                     'pytest -q -p no:cacheprovider, demo again, sa.check <property> --tier quick --repo <worktree>'}}
        json.dump(meta, open(os.path.join(d, 'meta.json'), 'w'), indent=1)
        print('kept', r['name'])


if __name__ == '__main__':
    main()
