#!/venv/bin/python
"""Regenerates /verif/MANIFEST.json from the table below (single source of truth for the
per-property claim texts).  Run after adding a rule module."""
import json
import os

VERIF = os.path.dirname(os.path.dirname(os.path.abspath(__file__)))

COMMON_NOTE = ("Trusted: CPython's ast (the parsed tree is what runs), sa.index class/callee resolution, the oracles "
               "written in DESIGN.md. Nothing of bridge_env is imported or executed. Unrecognised code shapes are "
               "reported as ANALYSIS-ERROR (exit 2), never as a pass.")

CLAIMS = {
    'C15': dict(
        technique='static analysis: table extraction by constant folding of the converter ASTs over complete finite domains; whole-table inverse/injectivity comparison',
        text='All converter tables (52 cards, 38 calls, 4 seats, 4 vulnerabilities x spellings, 35x3 contracts x vul x declarer, 2704 card pairs) '
             'are extracted from the source by partial evaluation inside the analyser and compared as wholes: mutually inverse, injective, '
             'order agrees with index. Exhaustive over the finite domains the property quantifies over.',
        ref='4/C15'),
}

PENDING_REASON = 'check under construction in this session (static rules designed in DESIGN.md section 4, not yet registered)'


def main():
    checks = []
    for pid in sorted(CLAIMS):
        c = CLAIMS[pid]
        checks.append({
            'property_id': pid,
            'quick_cmd': f'/venv/bin/python -m sa.check {pid} --tier quick',
            'thorough_cmd': f'/venv/bin/python -m sa.check {pid} --tier thorough',
            'evidence_file': f'/verif/evidence/{pid}.json',
            'replay_cmd_template': '/venv/bin/python -m sa.check --replay {path}',
            'engine': 'sa',
            'level_claimed': {'category': 'other', 'text': c['text'], 'design_ref': 'DESIGN.md section ' + c['ref']},
            'level_note': c.get('note', COMMON_NOTE),
            'technique': c['technique'],
        })
    na = c_na = []
    props = [json.loads(l)['id'] for l in open(os.path.join(VERIF, 'properties.jsonl'))]
    na = [{'property_id': p, 'reason': NOT_APPLICABLE.get(p, PENDING_REASON)} for p in props if p not in CLAIMS]
    man = {
        'version': 1,
        'setup_cmd': '/venv/bin/python -c "import ast, json, re, sys; sys.path.insert(0, \'/verif\'); import sa.check; print(\'sa ready\')"',
        'hooks': {'guard': 'BRIDGE_ENV_VERIF', 'enable': 'none needed: the analysis reads source only, /repo is not instrumented',
                  'baseline_off_cmd': 'cd /repo && /venv/bin/python -m pytest -ra -q -p no:cacheprovider --timeout=900 --continue-on-collection-errors',
                  'source_commits': [], 'add_only': True},
        'engines': [{'name': 'sa', 'path': '/verif/sa', 'serves_properties': sorted(CLAIMS),
                     'kind_free_text': 'repository-specific static analysis on Python ast: program index, constant-folding table extractor, '
                                       'path-sensitive effect summaries, guard truth tables, template/regex agreement, typestate, '
                                       'communication-skeleton abstract interpreter'}],
        'checks': checks,
        'not_applicable': na,
        'notes': 'All checks: cwd=/verif, interpreter /venv/bin/python (stdlib only). Exit 0 ok, 1 VIOLATION, 2 ANALYSIS-ERROR '
                 '(rule could not be evaluated). Known findings: /verif/KNOWN_FINDINGS.txt (seven defects, all repaired by fix: commits in /repo).',
    }
    with open(os.path.join(VERIF, 'MANIFEST.json'), 'w') as fh:
        json.dump(man, fh, indent=1)
    print('MANIFEST.json:', len(checks), 'checks,', len(na), 'not_applicable')


NOT_APPLICABLE = {}

if __name__ == '__main__':
    main()
