#!/venv/bin/python
"""Regenerates /verif/MANIFEST.json from the table below (single source of truth for the
per-property claim texts).  Run after adding a rule module."""
import json
import os

VERIF = os.path.dirname(os.path.dirname(os.path.abspath(__file__)))

COMMON_NOTE = ("Trusted: CPython's ast (the parsed tree is what runs), sa.index class/callee resolution, the oracles "
               "written in DESIGN.md. Nothing of bridge_env is imported or executed. Unrecognised code shapes are "
               "reported as ANALYSIS-ERROR (exit 2), never as a pass. The analyser's model of Python (sa.fold) is itself tested against "
               "CPython on a corpus of 1024 small programs (sa.foldtest, thorough tier: 0 disagreements; a disagreement is exit 2). Every check also "
               "evaluates the hygiene rules (.M: memoisation, shared class / module state, identity comparison of values, one-shot iterators, and "
               "M10: a class with its own copy protocol must give copy.deepcopy an independent object).")

BIDFOLD = """static analysis: explicit-state exploration of the auction engine's source under the analyser's partial evaluator (numpy vector on a 1-d array model) against an oracle of the Laws; """
PATHS = 'static analysis: path-sensitive effect summary (all syntactic paths, helpers inlined, reaching-definition substitution) + guards evaluated as truth tables over abstract valuations; enum helper tables by constant folding'

CLAIMS = {
    'C01': dict(
        technique=BIDFOLD + PATHS[len('static analysis: '):],
        text='(R9) Every call sequence over an alphabet of all call kinds (pass, double, redouble, cheapest / denomination-changing / top bids, '
             'insufficient bids) to depth 6 (7 thorough) from the empty auction, other dealers to depth 4-5, and scripted long auctions incl. the '
             '319-call maximum, also as compiled by python -O: at every prefix the advertised vector of the 38 calls equals the legal set of the oracle, '
             'each offered call is accepted iff legal, a refused call is answered ILLEGAL and changes nothing observable.  Symbolic rules for all '
             'histories (evaluated when the state representation can be bound): legality as an inductive invariant of the 38-slot vector: for every call x slot value x flags x last bidder x seat, the '
             'paths of take_bid consistent with that valuation are shown to (R1) refuse without any write when the slot is 0, (R2) never '
             'refuse otherwise, (R3) start from all-ones minus X/XX, (R4) disable exactly the prefix up to the bid, never pass, (R5) set the '
             'X / XX slots to the double / redouble rights of the NEXT caller, (R7) update the flags as the Laws require, (R8) be the only '
             'writers. Holds for all histories by induction over calls; decided on all paths, not on sampled auctions.',
        ref='4/C01'),
    'C02': dict(
        technique=BIDFOLD + PATHS[len('static analysis: '):],
        text='(R5) On the same exploration as C01.R9: the seat on turn, the common history and each seat\'s share of it, has_done and the returned '
             'state at every prefix equal the oracle (four opening passes / three passes after a bid, double or redouble end the auction, nothing '
             'else does); after the end every call raises and changes nothing (also under python -O).  Symbolic rules: for every call x history shape (length 0..4, last two calls pass or not) x seat: accepting paths end FINISHED exactly when the '
             'Laws say so; each appends the call once to the common and to the pre-advance seat\'s history; turn advances clockwise (folded '
             'table) or becomes none exactly on FINISHED; after the end every call raises before any write; dealer calls first.',
        ref='4/C02'),
    'C03': dict(
        technique=BIDFOLD + PATHS[len('static analysis: '):],
        text='(R4) On the same exploration: contract() is None at every unfinished prefix and at every completed auction equals the oracle (last bid, '
             'doubling state, board vulnerability, declarer = first of the side of the last bid to have named the denomination; passed out with no '
             'declarer), incl. both partners / both sides naming the denomination and superseded doubles.  Symbolic rules: first-to-name table written only by real bids, under the emptiness test of exactly the slot written, with the bidding seat '
             '(every bid x seat x slot empty/occupied); flags reset by every bid; contract() evaluated under every valuation (ended or not, '
             'passed out, 3 doubling states x 4 vulnerabilities x bidder x recorded first namer) and compared field by field.',
        ref='4/C03'),
    'C04': dict(
        technique=PATHS + '; abstract interpretation of calc_highest over the order abstraction of the ranks; bounded while-loop unrolling',
        text='(R7) complete play-outs of the folded engine and four replicas against an oracle of the rules after every card (turn, leader, trick number, tricks taken, recorded tricks, has_done; 24 deals quick / 100 thorough).  play_card (helpers inlined, leader loop summarised or unrolled) evaluated for every leader x cards-in-trick x highest-trump position x '
             'highest-led-suit position: record carries the OLD leader and the cards incl. this one, new leader = trump winner else winner of '
             'the suit of card 0, one +1 to the NEW leader\'s side, turn/trick bookkeeping; calc_highest folded with order-abstract ranks (values that admit only order comparisons; any other use is an analysis '
             'error) on every asked suit x suits of the 4 cards x weak order of the ranks; fourth-card rule folded on the real engine; constructor (dummy, opening leader, passed-out '
             'refused); has_done <=> 13 tricks.',
        ref='4/C04'),
    'C05': dict(
        technique=PATHS + '; who-may-write scan',
        text='(R6) on the complete play-outs: offending plays (card of another seat, card already played, seat out of turn) tried on clones at every fourth step are refused without any change, accepted plays move exactly the card, hands + played cards stay the 52 cards.  Both play_card_by_player overrides evaluated for every (seat on turn x seat named x observer x dummy x card held or not x dummy '
             'disclosed or not): refused plays end in raise with no write on the path; accepted plays remove exactly that card once from '
             'exactly the named seat\'s hand, add it once to the played cards and to the trick; nothing else in the package mutates hands or '
             'played cards. Conservation is inductive from these.',
        ref='4/C05'),
    'C06': dict(
        technique='static analysis: complete play-outs of the folded engines against an oracle; folding of available_cards on every hand-pattern x lead class, again on opaque ranks; path summaries of the wrappers; call-site provenance for RandomPlay and the client',
        text='(R4) on the complete play-outs the playable sets advertised by the table manager\'s engine and by the replicas (own hand, dummy) are the follow-suit sets at every turn.  available_cards equals the follow-suit rule on every hand pattern of a 6-card pool x each of the 52 cards as the card led (and no '
             'lead); the patterns are exhaustive because the same enumeration is folded again on cards whose rank is an OPAQUE value (any look at a rank '
             'leaves the abstraction -> analysis error); current_available_cards is folded on (current trick of 0..3 cards, 5 trump denominations, '
             'hand patterns): the suit led is that of the FIRST card, trump is irrelevant; wrappers pass the right hand; RandomPlay returns '
             'random.choice over current_available_cards(hand) of its own argument; on the communication skeleton the bundled client always hands '
             'its policy the hand of the seat on turn (own / dummy). Rests on C05 (rule .D).',
        ref='4/C06'),
    'C07': dict(
        technique='static analysis: partial evaluation (constant folding) of calc_score over its complete finite domain against the duplicate scoring table; folded vulnerability tables; reaching-definition routing check',
        text='The complete finite domain the property quantifies over - 35 bids x undoubled/doubled/redoubled x 4 board vulnerabilities x 4 declarers '
             'x 0..13 tricks = 23520 points, plus the passed-out contracts - is decided: calc_score (with Contract.is_vul / is_passed_out and '
             'calc_bid_score under it) is folded inside the analyser on every point and compared with the duplicate scoring table (Law 77) written '
             'out in the checker.  In addition: the vulnerability tables (Contract.is_vul -> Player.is_vul -> Pair.is_vul) as wholes, the argument '
             'routing in calc_score by reaching definitions, passed-out => 0, and the six undertrick tables on the complete down domain.',
        ref='4/C07'),
    'C15': dict(
        technique='static analysis: table extraction by constant folding of the converter ASTs over complete finite domains; whole-table inverse/injectivity comparison',
        text='All converter tables (52 cards, 38 calls, 4 seats, 4 vulnerabilities x spellings, 35x3 contracts x vul x declarer, 2704 card pairs) '
             'are extracted from the source by partial evaluation inside the analyser and compared as wholes: mutually inverse, injective, '
             'order agrees with index. Exhaustive over the finite domains the property quantifies over.',
        ref='4/C15'),
}

CLAIMS['C16'] = dict(
    technique='static analysis: abstract interpretation of the conversion over self-refining intervals of the integers (an interval-abstract difference; comparisons split the interval); table equality; dense constant folding as counterexample search',
    text='Scale table equals the official 24-step WBF scale.  point_difference_to_imps is folded on an interval-abstract difference: a comparison '
         'with a constant the interval straddles splits the interval there and the parts are folded again, an operation that needs the exact value '
         'is an analysis error - so the partition refines itself to the constants the code distinguishes whatever its shape (loop, bisect, ifs); '
         'on each resulting interval (50, covering every integer) the result is one integer equal to the official scale at both ends (range, '
         'monotone, odd follow).  score_to_imp is decided the same way for every integer score against a grid of scores (on and off the 10-point grid) in both positions.',
    ref='4/C16')

CLAIMS['C12'] = dict(
    technique='static analysis: JSON-type inference of the writer record vs the shipped schema; typed-field flow (raw JSON value must not reach a library-typed slot); writer/reader key, type and converter agreement; abstract run of the 2-state streaming envelope',
    text='Writer record typed expression by expression and compared with log_format.schema.json ($ref resolved, required keys unconditional); '
         'each key serialises the type the reader field declares, each reader field is computed from exactly its key(s) through the inverse '
         'converter (inverse tables: C15); no raw JSON value reaches a slot declared Player/Pair/Suit/Vul/Bid/Card/Contract/Hands; the literals '
         'of open/_write_content/close form valid JSON around 0..3 records; tags agree with the parser; no JSON value is used as a truth value '
         '(R5); whole-document rule R6: sequences of boards (with / without double-dummy table, passed out, no completed trick, 0 tricks) written '
         'through ONE writer object by folding the real writer, parsed as JSON, read back by folding the real reader and compared field by field '
         'by value, also as board settings. Not decided: escaping of arbitrary Unicode (delegated to json.dumps; ensure_ascii must stay on).',
    ref='4/C12')
CLAIMS['C13'] = dict(
    technique='static analysis: abstract interpretation of the communication skeleton with injected aborts (the real Server.run and JsonWriter code on an abstract file system); typestate (open -> write* -> close on every exit incl. exceptional) by a syntax-directed walk of Server.run; path summaries of __enter__/__exit__/close/_write_content',
    text='(R6) Abstract sessions of three boards in which board k = 1..3 is hit by an offending action - a call the engine answers ILLEGAL, an '
         'unparseable call, a card the engine refuses, an unparseable card - or by the operator\'s interrupt, at the first / a middle / the last '
         'call or card: the table manager stops, and the file at the configured output path is ONE parseable JSON document with exactly the k-1 '
         'finished boards, closed (the real open / _write_content / close run on an abstract file).  For all abort points, structurally: the log '
         'writer is released by a construct covering the exceptional edges (with-item whose __exit__ must-calls close() and does not swallow, file '
         'entered before the writer); close writes the closing literal on every path; json.dumps precedes the first stream write; the per-board '
         'write closes the loop body; no handler in the session code swallows the abort; parsers never return None.',
    ref='4/C13')
CLAIMS['C14'] = dict(
    technique='static analysis: encoders/decoders folded inside the analyser on a covering family of deal shapes x first seats against canonical-form oracles; numpy pair folded on a 1-d array model; slice tiling under three permutations',
    text='PARTIAL. Decided on the covering family (balanced, a void in each suit position, double voids, 13-card suits, freaks, high/low swapped, '
         'partial deals) x 4 first seats: PBN text canonical and read back, 52-slot vectors, JSON lists ascending under N/E/S/W; to_np_binary / convert_np_binary folded on a model of '
         'numpy\'s 1-d arrays for four dtypes incl. bool (indicator vectors, read back, and reader on checker-built vectors); dealer slices tile the pack under any permutation; (R5) the streaming JSON writer the card lists go through leaves one parseable document after a record that cannot be serialised. NOT decided: equality for each '
         'of the 5.4e28 individual deals (runtime value).',
    ref='4/C14')
CLAIMS['C17'] = dict(
    technique='static analysis: writer/schema/reader agreement for JSON settings; syntax-directed rules on PbnParser.parse_stream (yield guards, separator class, buffer reset, %-lines); parse_board folded on tag-order x layout x alphabet buffers; typed-field flow + converter table for parse_board_settings',
    text='JSON settings: same triangle as C12 on JsonBoardSettingWriter / convert_board_setting / board_setting_format.schema.json. PBN: every '
         'yield guarded by non-emptiness (blank-line runs, leading/trailing blank lines), separator pattern fullmatches LF/CRLF/whitespace-only '
         'and no content line, buffers reset unconditionally, %-lines consumed before extraction; parse_board maps each tag to its first value '
         'verbatim for all orders of the 4 tags x extra tags/table rows x LF/CRLF x values over the alphabet incl. runs of spaces; the four tags '
         'go through Hands.convert_pbn / Player[] / Vul.str_to_vul. Whole-file rules: R6 folds the complete reader on 18 layouts x 2 configurations '
         '(LF/CRLF, blank-line runs, header lines, extra tags, reversed tag order, table sections with indented rows, repeated tags, lines of 254 / 255 / 256 / 510 visible '
         'characters under LF and CRLF, spellings, repeated board numbers); R7 folds JsonBoardSettingWriter -> JsonParser on lists of 0..4 boards. Not decided: PBN commentary.',
    ref='4/C17')
CLAIMS['C18'] = dict(
    technique='static analysis: path summary of write_board_result (tag order, separator, value provenance), sibling agreement with the reader separator pattern, write_line folded on every length class, who-may-write the stream, writer lines folded through parse_board',
    text='15 mandatory tags in order on every path; a line fullmatching the reader\'s separator pattern follows the Result tag; the stream is '
         'written only by write_line, whose chunks are <= 255 characters for every length 1..1100 (folded on opaque texts of which only length and line breaks exist); tag values '
         'by provenance per path (passed out / played with 0, 7, 13 tricks); the 15 written tag lines are read back verbatim by parse_board; whole-file '
         'rule R6: sequences of board results (played, passed out, 0 tricks, repeated board number, a name longer than a line) written through ONE '
         'writer object, every line <= 255, read back as one game per result with the 15 values and recovered as board settings in order.',
    ref='4/C18')

CLAIMS['C19'] = dict(
    technique='static analysis: builder/parser agreement by partial evaluation of both ends\' code (call-site wiring included) over the complete finite message domains with scripted message endpoints; structural recv-size rule + end-of-stream propagation through the receive loop at every stream position',
    text='Hands (105-hand covering family x 4 seats, own and dummy), 38 calls x 4 seats x 5 letter cases x 5 alert spellings through the server\'s own '
         'normalisation statements and as relayed to the other clients, 52 cards x 4 seats x 2 notations x letter cases, board headers (7 numbers x 4 dealers '
         'x 4 vulnerabilities), the connection dialogue (connect line, seated reply, Teams, ready lines; 4 seats x 15 team names x letter cases) with '
         'Client._connect and PlayerThread._connect evaluated against each other, lead prompts, start/end literals: each text built by one end is '
         'read by the other end\'s code as the original value. Framing: CR LF appended = CR LF consumed, every recv asks for 1 byte (else every '
         'chunking is enumerated), end-of-stream at each of the 13 positions of a two-message stream ends receive_message with an exception. '
         'Not decided: kernel TCP behaviour; team names containing a double quote (excluded by the property).',
    ref='4/C19')


SKEL = ('static analysis: abstract interpretation of the communication skeleton (ASTs of Server.run / PlayerThread.run / Client.run as cooperating '
        'processes over the finite role domain - seats, pairs, control tokens, opaque call/card/hand tokens with provenance; engines, sockets, '
        'queues, barrier, events and the log are analyser stubs) for every role configuration, compared with a spec-level oracle')
SKEL_NOTE = (COMMON_NOTE + ' Additionally trusted: the engine stubs of sa.skeleton (turn logic as established on the real classes by C01-C05), '
             'CPython semantics of Queue/Barrier/Event, Kahn determinacy (schedule independence under the discipline rule); extra scheduling policies '
             'are a cross-check of that theorem on identical configurations.')
CLAIMS['C08'] = dict(
    technique=SKEL + '; KPN-discipline who-may-call inventory; whole-document fold of the log writer and reader',
    text='PARTIAL. Decided for every role configuration (dealer x declarer x trick-winner patterns x auction lengths x passed-out x multi-board sessions): '
         'the arguments handed to the log writer for board k are the configured id/dealer/dda and the ORIGINAL deal object (the play engine consumes a '
         'copy), the call and card tokens exactly as the seats sent them, the contract of the auction engine with the configured vulnerability, the trick '
         'count of DECLARER\'s side, scores {declarer side: calc_score(contract, those tricks), other: its negation}, None/None/zeros when passed out, one '
         'record per board in order; identical under every scheduling policy; no random draw for configured values; (R8) what the writer is handed is what the document holds: board sequences with pairwise different parameter values written through one '
         'writer (real code folded), parsed and read back, every field equal. The session model has real trick counts (a 0-trick result is falsy) and the REAL Contract class behind the contract stub. NOT decided: the JSON text (C12), scoring arithmetic (C07), legality (C01-C06).',
    ref='4/C08', note=SKEL_NOTE)
CLAIMS['C09'] = dict(
    technique='static analysis: Kahn-process-network discipline as a who-may-call / allowed-operations inventory of every Queue, Barrier and Event; token exhaustiveness; ' + SKEL,
    text='Every cross-thread primitive obeys the discipline under which termination is schedule-independent (unbounded queues, blocking get / plain put, '
         'one producer and one consumer role per queue keyed by the own seat, Barrier of seats+1 parties, Event only as the one-shot admission handshake; '
         'a release flag set or cleared by the main thread - the original defect - is reported); every control token put has a handler; for every role '
         'configuration and scheduling policy (incl. each of the 9 processes stalled as long as possible) the abstract session has no deadlock, all processes '
         'finish, queues are drained, each client gets "End of session" last, the log is closed before that, every seat thread is joined. '
         'Assumes conforming clients and no exception (abort paths: C13).',
    ref='4/C09', note=SKEL_NOTE)
CLAIMS['C10'] = dict(
    technique='static analysis: information-flow of hand contents to queue puts (two recognised disclosures), relay skip-key = source-queue key; ' + SKEL,
    text='For every role configuration the stream each connection receives equals, message by message, the entitlement computed from the configuration alone: '
         'own hand only (owner and board provenance), dummy after card 1 and before card 2 of trick 1 on the two-way stream and never to dummy, every call / card '
         'once, in order, to every seat except its source connection (declarer for dummy), lead prompts only to the connection that must lead, configured '
         'board number / dealer / vulnerability; seat queues are touched by their own thread and main only. Structural: every hand-dependent put is one of '
         'the two recognised disclosures; each relay skips exactly the queue key it read from. NOT decided: bytes inside the opaque texts (C19).',
    ref='4/C10', note=SKEL_NOTE)
CLAIMS['C11'] = dict(
    technique='static analysis: who-may-write / no-override rule for the shared play state machine; path summaries of both play_card_by_player overrides on every situation (reuse of C05); ' + SKEL + ' with the bundled Client as the four peers',
    text='Replicas share one state machine (state written only by PlayingPhase, no override of play_card/_record/_set_next_leader/calc_highest/has_done, the '
         'unmodified card handed over exactly once); the observer accepts whenever the full engine accepts (all seat/role/holding/disclosure situations) - '
         'agreement is then inductive over the public plays; (R5) four replicas in lock-step with the table manager\'s engine through complete play-outs of 52 cards (each engine with its own card objects) agree after every card. For every role configuration of a whole session with the bundled client: mirrors are built '
         'from the announced dealer/vulnerability/contract/own hand/disclosed dummy, every call and card a mirror is fed is the one the table manager applied '
         'at that step, no client is answered ERROR, clients finish iff the server does, and at the end of each board the four mirrors hold the table '
         'manager\'s calls, contract, cards, trick number, leader, turn. NOT decided: card/call values inside the mirrors (opaque; C19).',
    ref='4/C11', note=SKEL_NOTE)
CLAIMS['C20'] = dict(
    technique='static analysis: exhaustive abstract interpretation of PlayerThread._connect over (seat table 3^4) x (seat x team x version) against the admission specification; path rule (exactly one verdict signal); one-shot handshake discipline; abstract admission sessions for orders of arrival',
    text='All 81 x 36 (table, request) transitions of _connect: wrong version / taken seat / partner under another name => ERROR reply, connection closed, table '
         'unchanged; else seat recorded and `<Seat> <team> seated`; always exactly one verdict signal; Teams line = table[N], table[E]. Team names are used '
         'only through ==/!=/None tests (also inside the helper methods they are handed to), so six representative names cover all orderings. Accept loop = one-shot handshake. Scenarios: all orders of the four valid '
         'requests, rejected requests inserted at every stage, simultaneous arrival under several schedules: verdicts follow the specification in acceptance '
         'order, one client per seat, partners share a name, everyone gets Teams then "Start of board", the first board is played. Rests on the framing rules of C19 (non-ASCII names arrive intact).',
    ref='4/C20', note=SKEL_NOTE)

PENDING_REASON = 'check under construction in this session (static rules designed in DESIGN.md section 4, not yet registered)'


def main():
    checks = []
    for pid in sorted(CLAIMS):
        c = CLAIMS[pid]
        checks.append({
            'property_id': pid,
            'quick_cmd': f'/venv/bin/python -m sa.check {pid} --tier quick',
            'thorough_cmd': f'/venv/bin/python -m sa.check {pid} --tier thorough',
            'evidence_file': f'/verif/evidence/{pid}.json',
            'replay_cmd_template': '/venv/bin/python -m sa.check --replay {path}',
            'engine': 'sa',
            'level_claimed': {'category': 'other', 'text': c['text'], 'design_ref': 'DESIGN.md section ' + c['ref']},
            'level_note': c.get('note', COMMON_NOTE),
            'technique': c['technique'],
        })
    na = c_na = []
    props = [json.loads(l)['id'] for l in open(os.path.join(VERIF, 'properties.jsonl'))]
    na = [{'property_id': p, 'reason': NOT_APPLICABLE.get(p, PENDING_REASON)} for p in props if p not in CLAIMS]
    man = {
        'version': 1,
        'setup_cmd': '/venv/bin/python -c "import ast, json, re, sys; sys.path.insert(0, \'/verif\'); import sa.check; print(\'sa ready\')"',
        'hooks': {'guard': 'BRIDGE_ENV_VERIF', 'enable': 'none needed: the analysis reads source only, /repo is not instrumented',
                  'baseline_off_cmd': 'cd /repo && /venv/bin/python -m pytest -ra -q -p no:cacheprovider --timeout=900 --continue-on-collection-errors',
                  'source_commits': [], 'add_only': True},
        'engines': [{'name': 'sa', 'path': '/verif/sa', 'serves_properties': sorted(CLAIMS),
                     'kind_free_text': 'repository-specific static analysis on Python ast: program index, constant-folding table extractor, '
                                       'path-sensitive effect summaries, guard truth tables, template/regex agreement, typestate, '
                                       'communication-skeleton abstract interpreter'}],
        'checks': checks,
        'not_applicable': na,
        'notes': 'All checks: cwd=/verif, interpreter /venv/bin/python (stdlib only). Exit 0 ok, 1 VIOLATION, 2 ANALYSIS-ERROR '
                 '(rule could not be evaluated). Known findings: /verif/KNOWN_FINDINGS.txt (eight defects, all repaired by fix: commits in /repo).',
    }
    with open(os.path.join(VERIF, 'MANIFEST.json'), 'w') as fh:
        json.dump(man, fh, indent=1)
    print('MANIFEST.json:', len(checks), 'checks,', len(na), 'not_applicable')


NOT_APPLICABLE = {}

if __name__ == '__main__':
    main()
