#!/venv/bin/python
"""Regenerates /verif/MANIFEST.json from the table below (single source of truth for the
per-property claim texts).  Run after adding a rule module."""
import json
import os

VERIF = os.path.dirname(os.path.dirname(os.path.abspath(__file__)))

COMMON_NOTE = ("Trusted: CPython's ast (the parsed tree is what runs), sa.index class/callee resolution, the oracles "
               "written in DESIGN.md. Nothing of bridge_env is imported or executed. Unrecognised code shapes are "
               "reported as ANALYSIS-ERROR (exit 2), never as a pass.")

PATHS = 'static analysis: path-sensitive effect summary (all syntactic paths, helpers inlined, reaching-definition substitution) + guards evaluated as truth tables over abstract valuations; enum helper tables by constant folding'

CLAIMS = {
    'C01': dict(
        technique=PATHS,
        text='Legality as an inductive invariant of the 38-slot vector: for every call x slot value x flags x last bidder x seat, the '
             'paths of take_bid consistent with that valuation are shown to (R1) refuse without any write when the slot is 0, (R2) never '
             'refuse otherwise, (R3) start from all-ones minus X/XX, (R4) disable exactly the prefix up to the bid, never pass, (R5) set the '
             'X / XX slots to the double / redouble rights of the NEXT caller, (R7) update the flags as the Laws require, (R8) be the only '
             'writers. Holds for all histories by induction over calls; decided on all paths, not on sampled auctions.',
        ref='4/C01'),
    'C02': dict(
        technique=PATHS,
        text='For every call x history shape (length 0..4, last two calls pass or not) x seat: accepting paths end FINISHED exactly when the '
             'Laws say so; each appends the call once to the common and to the pre-advance seat\'s history; turn advances clockwise (folded '
             'table) or becomes none exactly on FINISHED; after the end every call raises before any write; dealer calls first.',
        ref='4/C02'),
    'C03': dict(
        technique=PATHS,
        text='First-to-name table written only by real bids, under the emptiness test of exactly the slot written, with the bidding seat '
             '(every bid x seat x slot empty/occupied); flags reset by every bid; contract() evaluated under every valuation (ended or not, '
             'passed out, 3 doubling states x 4 vulnerabilities x bidder x recorded first namer) and compared field by field.',
        ref='4/C03'),
    'C15': dict(
        technique='static analysis: table extraction by constant folding of the converter ASTs over complete finite domains; whole-table inverse/injectivity comparison',
        text='All converter tables (52 cards, 38 calls, 4 seats, 4 vulnerabilities x spellings, 35x3 contracts x vul x declarer, 2704 card pairs) '
             'are extracted from the source by partial evaluation inside the analyser and compared as wholes: mutually inverse, injective, '
             'order agrees with index. Exhaustive over the finite domains the property quantifies over.',
        ref='4/C15'),
}

PENDING_REASON = 'check under construction in this session (static rules designed in DESIGN.md section 4, not yet registered)'


def main():
    checks = []
    for pid in sorted(CLAIMS):
        c = CLAIMS[pid]
        checks.append({
            'property_id': pid,
            'quick_cmd': f'/venv/bin/python -m sa.check {pid} --tier quick',
            'thorough_cmd': f'/venv/bin/python -m sa.check {pid} --tier thorough',
            'evidence_file': f'/verif/evidence/{pid}.json',
            'replay_cmd_template': '/venv/bin/python -m sa.check --replay {path}',
            'engine': 'sa',
            'level_claimed': {'category': 'other', 'text': c['text'], 'design_ref': 'DESIGN.md section ' + c['ref']},
            'level_note': c.get('note', COMMON_NOTE),
            'technique': c['technique'],
        })
    na = c_na = []
    props = [json.loads(l)['id'] for l in open(os.path.join(VERIF, 'properties.jsonl'))]
    na = [{'property_id': p, 'reason': NOT_APPLICABLE.get(p, PENDING_REASON)} for p in props if p not in CLAIMS]
    man = {
        'version': 1,
        'setup_cmd': '/venv/bin/python -c "import ast, json, re, sys; sys.path.insert(0, \'/verif\'); import sa.check; print(\'sa ready\')"',
        'hooks': {'guard': 'BRIDGE_ENV_VERIF', 'enable': 'none needed: the analysis reads source only, /repo is not instrumented',
                  'baseline_off_cmd': 'cd /repo && /venv/bin/python -m pytest -ra -q -p no:cacheprovider --timeout=900 --continue-on-collection-errors',
                  'source_commits': [], 'add_only': True},
        'engines': [{'name': 'sa', 'path': '/verif/sa', 'serves_properties': sorted(CLAIMS),
                     'kind_free_text': 'repository-specific static analysis on Python ast: program index, constant-folding table extractor, '
                                       'path-sensitive effect summaries, guard truth tables, template/regex agreement, typestate, '
                                       'communication-skeleton abstract interpreter'}],
        'checks': checks,
        'not_applicable': na,
        'notes': 'All checks: cwd=/verif, interpreter /venv/bin/python (stdlib only). Exit 0 ok, 1 VIOLATION, 2 ANALYSIS-ERROR '
                 '(rule could not be evaluated). Known findings: /verif/KNOWN_FINDINGS.txt (seven defects, all repaired by fix: commits in /repo).',
    }
    with open(os.path.join(VERIF, 'MANIFEST.json'), 'w') as fh:
        json.dump(man, fh, indent=1)
    print('MANIFEST.json:', len(checks), 'checks,', len(na), 'not_applicable')


NOT_APPLICABLE = {}

if __name__ == '__main__':
    main()
