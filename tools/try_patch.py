#!/venv/bin/python
"""Applies one patch to a scratch worktree of /repo and runs the given quick checks on it (worktree removed afterwards).
usage: try_patch.py <dir with patch.diff | patch file> Cxx [Cyy ...]"""
import os
import subprocess
import sys
import tempfile

VERIF = os.path.dirname(os.path.dirname(os.path.abspath(__file__)))


def main():
    src = os.path.abspath(sys.argv[1])
    patch = os.path.join(src, 'patch.diff') if os.path.isdir(src) else src
    wt = tempfile.mkdtemp(prefix='trywt_', dir='/tmp')
    os.rmdir(wt)
    subprocess.run(f'git -C /repo worktree add --detach {wt} HEAD -q', shell=True, check=True)
    try:
        subprocess.run(f'git apply {patch}', shell=True, check=True, cwd=wt)
        for pid in sys.argv[2:]:
            ev = tempfile.mkdtemp(prefix='tryev_')
            p = subprocess.run(f'/venv/bin/python -m sa.check {pid} --tier quick --repo {wt}', shell=True, cwd=VERIF, capture_output=True, text=True,
                               env={**os.environ, 'SA_EVIDENCE_DIR': ev})
            lines = [l for l in (p.stdout + p.stderr).splitlines() if l.startswith(('VIOLATION', 'ANALYSIS-ERROR', '  reason', '  bridge_env', 'NOTE', 'Traceback'))]
            print(f'== {pid} exit={p.returncode}')
            for l in lines[:int(os.environ.get("N", 9))]:
                print('   ' + l[:400])
            subprocess.run(f'rm -rf {ev}', shell=True)
    finally:
        subprocess.run(f'git -C /repo worktree remove --force {wt}', shell=True)


main()
