#!/venv/bin/python
"""Writes /verif/seeded/RESULTS.md from the JSON of `eval_seeded.py --stored --out <file>`: which rule of which check reports which stored change."""
import json
import os
import re
import sys

VERIF = os.path.dirname(os.path.dirname(os.path.abspath(__file__)))


def first_line(name):
    p = os.path.join(VERIF, 'seeded', name, 'notes.md')
    if not os.path.exists(p):
        return ''
    for l in open(p, encoding='utf-8'):
        l = l.strip().lstrip('#').strip()
        if l and not l.lower().startswith(('notes', 'change')) or (l and len(l) > 25):
            return re.sub(r'\s+', ' ', l)[:170]
    return ''


def main():
    res = json.load(open(sys.argv[1]))
    rows = []
    for r in sorted(res, key=lambda x: x['name']):
        own = r.get('checks', {}).get(r['property'], {})
        rc = own.get('rc')
        verdict = {0: 'missed', 1: 'VIOLATION', 2: 'analysis error (exit 2)'}.get(rc, str(rc))
        rules = sorted({m.group(1) for l in own.get('lines', []) for m in [re.search(r'rule=(\S+)', l)] if m})
        rows.append(f'| {r["name"]} | {r["property"]} | {first_line(r["name"])} | {verdict} | {", ".join(rules[:4])} |')
    n = len(rows)
    det = sum(1 for r in res if r.get('checks', {}).get(r['property'], {}).get('rc') == 1)
    out = ['# Seeded changes and the checks that report them', '',
           f'{n} changes written by independent sub-agents (property text + scratch worktree only), each confirmed here: pinned suite passes with the change, '
           f'its demonstration passes on the clean tree and fails with the change. Verdict of the seeded property\'s own quick check on a scratch '
           f'worktree with the change applied (`tools/eval_seeded.py --stored`): **{det}/{n} reported as VIOLATION**.', '',
           '| change | property | what it does (from the author\'s notes) | verdict | reporting rule(s) |', '|---|---|---|---|---|'] + rows
    open(os.path.join(VERIF, 'seeded', 'RESULTS.md'), 'w').write('\n'.join(out) + '\n')
    print(f'{det}/{n}')


if __name__ == '__main__':
    main()
