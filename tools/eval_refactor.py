#!/venv/bin/python
"""False-alarm test: applies behaviour-preserving refactorings (patch.diff files written by independent sub-agents) to a
scratch copy of /repo and runs EVERY registered quick check on it.  Expected: exit 0 everywhere.  Exit 1 (a VIOLATION on
code where the property holds) is a false alarm and must be fixed in the checker; exit 2 (unrecognised shape) is noise to
be reduced where feasible.

usage: eval_refactor.py --src /tmp/wt_out3 [R1 R2 ...]     or   eval_refactor.py --stored
"""
import argparse
import json
import os
import re
import shutil
import subprocess
import sys
import tempfile
from concurrent.futures import ThreadPoolExecutor

VERIF = os.path.dirname(os.path.dirname(os.path.abspath(__file__)))
PY = '/venv/bin/python'
ALL = [f'C{i:02d}' for i in range(1, 21)]


def sh(cmd, cwd=None, env=None, timeout=900):
    e = dict(os.environ)
    e.update(env or {})
    try:
        p = subprocess.run(cmd, shell=True, cwd=cwd, capture_output=True, text=True, timeout=timeout, env=e)
    except subprocess.TimeoutExpired as ex:
        return 124, f'timeout after {timeout}s: {ex.stdout or ""}'
    return p.returncode, p.stdout + p.stderr


def evaluate(item, with_tests):
    name, pdir = item
    tmp = tempfile.mkdtemp(prefix=f'refwt_{name}_', dir='/tmp')
    res = {'name': name, 'dir': pdir, 'checks': {}}
    try:
        rc, out = sh(f'git -C /repo archive HEAD | tar -x -C {tmp}')
        rc, out = sh(f'git apply {os.path.join(pdir, "patch.diff")}', cwd=tmp)
        if rc:
            sh('git init -q . ', cwd=tmp)
            rc, out = sh(f'patch -p1 -s < {os.path.join(pdir, "patch.diff")}', cwd=tmp)
            if rc:
                res['error'] = 'apply: ' + out[-200:]
                return res
        if with_tests:
            rc, out = sh(f'{PY} -m pytest -q -p no:cacheprovider -x', cwd=tmp, env={'PYTHONPATH': tmp})
            m = re.search(r'(\d+) passed', out)
            res['tests'] = f'{m.group(1)} passed' if m and rc == 0 else f'rc={rc}'
        for p in ALL:
            ev = tempfile.mkdtemp(prefix='refev_')
            rc, out = sh(f'{PY} -m sa.check {p} --tier quick --repo {tmp}', cwd=VERIF, env={'SA_EVIDENCE_DIR': ev})
            shutil.rmtree(ev, ignore_errors=True)
            if rc != 0:
                res['checks'][p] = {'rc': rc, 'lines': [l for l in out.splitlines() if l.startswith(('VIOLATION', 'ANALYSIS-ERROR', '  reason', '  bridge_env'))][:5]}
        return res
    finally:
        shutil.rmtree(tmp, ignore_errors=True)


def main():
    ap = argparse.ArgumentParser()
    ap.add_argument('--src')
    ap.add_argument('--stored', action='store_true')
    ap.add_argument('--tests', action='store_true')
    ap.add_argument('-j', type=int, default=4)
    ap.add_argument('--out')
    ap.add_argument('names', nargs='*')
    a = ap.parse_args()
    items = []
    if a.stored:
        root = os.path.join(VERIF, 'refactorings')
        for n in sorted(os.listdir(root)):
            if os.path.isdir(os.path.join(root, n)) and (not a.names or any(n.startswith(x) for x in a.names)):
                items.append((n, os.path.join(root, n)))
    else:
        for g in sorted(os.listdir(a.src)):
            if not re.fullmatch(r'R\d+', g):
                continue
            for k in sorted(os.listdir(os.path.join(a.src, g))):
                d = os.path.join(a.src, g, k)
                if a.names and g not in a.names and f'{g}-{k}' not in a.names:
                    continue
                if os.path.isdir(d) and os.path.exists(os.path.join(d, 'patch.diff')):
                    items.append((f'{g}-{k}', d))
    with ThreadPoolExecutor(max_workers=a.j) as ex:
        results = list(ex.map(lambda it: evaluate(it, a.tests), items))
    fa = e2 = 0
    for r in results:
        bad = r['checks']
        status = 'silent' if not bad and not r.get('error') else ' '.join(f'{p}:exit{c["rc"]}' for p, c in bad.items()) + (' ' + r.get('error', ''))
        print(f'{r["name"]:8s} tests={r.get("tests", "-"):12s} {status}')
        for p, c in bad.items():
            fa += c['rc'] == 1
            e2 += c['rc'] == 2
            for l in c['lines'][:3]:
                print('      ' + l[:240])
    print(f'{len(results)} refactorings x {len(ALL)} checks: {fa} false alarms (exit 1), {e2} analysis errors (exit 2)')
    if a.out:
        json.dump(results, open(a.out, 'w'), indent=1)


if __name__ == '__main__':
    main()
